#!/venv/bin/python
"""Entry point of every registered check: run_check.py <property> [--tier T] [--replay F]."""
import argparse
import os
import sys

if os.environ.get("PYTHONHASHSEED") != "0" and not os.environ.get("VERIF_KEEP_HASHSEED"):
    os.environ["PYTHONHASHSEED"] = "0"
    os.execv(sys.executable, [sys.executable] + sys.argv)

sys.path.insert(0, os.path.dirname(os.path.abspath(__file__)))


def main():
    parser = argparse.ArgumentParser()
    parser.add_argument("property")
    parser.add_argument("extra", nargs="*")
    parser.add_argument("--tier", default=os.environ.get("VERIF_TIER") or "quick",
                        choices=("quick", "thorough"))
    parser.add_argument("--seed", type=int, default=int(os.environ.get("VERIF_SEED") or 0))
    parser.add_argument("--replay")
    args = parser.parse_args()
    if not os.environ.get("VERIF_PYOPT"):
        # one seed in five runs the package as `python -O` would (assert statements stripped)
        os.environ["VERIF_PYOPT"] = "1" if args.seed % 5 == 4 and not args.replay else "0"
    from sim import runner
    from sim.props import PROPS

    if args.property == "selftest":
        from sim import selftest
        return selftest.main(args.seed)
    if args.property == "selftest-worker":
        from sim import selftest
        pid, seeds, n = args.extra
        return selftest.worker(pid, args.tier, [int(x) for x in seeds.split(",")], int(n))
    prop = PROPS[args.property]
    if args.replay:
        return runner.replay_file(prop, args.replay)
    return runner.check_property(prop, args.tier, args.seed)


if __name__ == "__main__":
    sys.exit(main())
