#!/bin/sh
# Offline setup: make sure /venv has hypothesis, then run the simulator's quick self-test.
set -e
cd "$(dirname "$0")"
if ! /venv/bin/python -c "import hypothesis" 2>/dev/null; then
    PIP_NO_INDEX=1 /venv/bin/pip install --no-index --find-links /opt/veriftools/wheels hypothesis
fi
/venv/bin/python -c "import hypothesis, ete3, tqdm, infinity; print('deps ok', hypothesis.__version__)"
mkdir -p evidence replays
