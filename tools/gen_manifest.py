#!/venv/bin/python
"""Regenerate MANIFEST.json from the registry in sim/props.py (run from /verif)."""
import json
import os
import sys

sys.path.insert(0, os.path.dirname(os.path.dirname(os.path.abspath(__file__))))
from sim.props import PROPS, NOT_APPLICABLE, PENDING, ENGINES  # noqa: E402

checks = []
for pid in sorted(PROPS):
    prop = PROPS[pid]
    checks.append({
        "property_id": pid,
        "quick_cmd": f"./check {pid} --tier quick",
        "thorough_cmd": f"./check {pid} --tier thorough",
        "evidence_file": f"/verif/evidence/{pid}.json",
        "replay_cmd_template": f"./check {pid} --replay {{path}}",
        "engine": prop["engine"].NAME,
        "level_claimed": {
            "category": "exploration",
            "text": prop["level_text"],
            "design_ref": prop["design_ref"],
        },
        "level_note": prop["level_note"],
        "technique": prop["technique"],
    })

manifest = {
    "version": 1,
    "setup_cmd": "./setup.sh",
    "hooks": {
        "guard": "UDEM_LBIT_SUPERREC2_VERIF",
        "enable": "no source hook exists in /repo: every seam is installed from /verif at import "
                  "time (sim/kernel.py install(): superrec2 is compiled from /repo/src through an "
                  "AST rewrite that routes set construction to SimSet; tqdm clock, argparse.open, "
                  "sys.std*, utils.tex subprocess/shutil/tempfile are replaced from the harness). "
                  "The guard variable is set by the harness for information only.",
        "baseline_off_cmd": "cd /repo && /venv/bin/python -m pytest -ra -q -p no:cacheprovider "
                            "--timeout=900 --continue-on-collection-errors",
        "source_commits": [],
        "add_only": True,
    },
    "engines": ENGINES,
    "checks": checks,
    "not_applicable": [
        {"property_id": pid, "reason": reason}
        for pid, reason in sorted({**NOT_APPLICABLE, **PENDING}.items())
    ],
    "notes": "Deterministic simulation with fault injection; see DESIGN.md. Exit status of every "
             "check: 0 held on everything explored, 1 + VIOLATION line, 2 harness error (never "
             "counted as held). `./check selftest` proves determinism of the simulator. "
             "Configuration dimension decided by VERIF_SEED: seed % 5 == 4 compiles the package "
             "as `python -O` would (VERIF_PYOPT overrides; stored in replay files).",
}
with open(os.path.join(os.path.dirname(__file__), "..", "MANIFEST.json"), "w") as handle:
    json.dump(manifest, handle, indent=1)
    handle.write("\n")
print("MANIFEST.json:", len(checks), "checks,", len(manifest["not_applicable"]), "not claimed")
