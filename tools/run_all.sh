#!/bin/sh
# Run every registered check (quick by default) against /repo and validate the evidence files.
cd "$(dirname "$0")/.."
TIER="${1:-quick}"
FAIL=0
for P in $(python3 -c "import json; print(' '.join(c['property_id'] for c in json.load(open('MANIFEST.json'))['checks']))"); do
    ./check "$P" --tier "$TIER" | tail -1
    [ "${PIPESTATUS:-0}" = 0 ] || true
done
python3-vt - <<'PY'
import json, jsonschema, glob
schema = json.load(open('/root/.vp/EVIDENCE.schema.json'))
m = json.load(open('MANIFEST.json'))
jsonschema.validate(m, json.load(open('/root/.vp/MANIFEST.schema.json')))
for c in m['checks']:
    e = json.load(open(c['evidence_file']))
    jsonschema.validate(e, schema)
    print(c['property_id'], 'evidence ok', e['coverage']['evaluations'], e['coverage']['distinct_nontrivial'], e['wall_s'], 'violations', e.get('violations'))
PY
