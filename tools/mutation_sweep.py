#!/venv/bin/python
"""Systematic sensitivity sweep with classic one-token mutations (our own, next to the changes
written by sub-agents under seeded/).

stage 1  generate  : one-token mutants of /repo/src (comparison / arithmetic / boolean operators,
                     small constants, min<->max, strict<->non-strict ancestry, dropped `not`),
                     keep those under which the 55 baseline tests still pass
                     -> /tmp/mutation_sweep/survivors.json
stage 2  check     : run the quick tier of the checks mapped to the mutated file against a
                     scratch copy of /repo/src until one reports a violation
                     -> tools/MUTATION_SWEEP.md (committed summary), /tmp/mutation_sweep/results.json

usage: tools/mutation_sweep.py generate [max_per_file] | check [first] [last]
Nothing is ever written to /repo; scratch copies live under /tmp/mutation_sweep and are removed.
"""
import ast
import concurrent.futures as cf
import json
import os
import re
import shutil
import subprocess
import sys
import tempfile

VERIF = os.path.dirname(os.path.dirname(os.path.abspath(__file__)))
WORK = "/tmp/mutation_sweep"
SRC = "/repo/src"

FILES = {
    "superrec2/compute/reconciliation.py": ["C01", "C10", "C05"],
    "superrec2/compute/exhaustive.py": ["C01"],
    "superrec2/compute/super_reconciliation.py": ["C02", "C05", "C04"],
    "superrec2/compute/unordered_super_reconciliation.py": ["C03", "C05", "C04"],
    "superrec2/model/reconciliation.py": ["C01", "C02", "C03", "C13", "C12", "C08"],
    "superrec2/model/synteny.py": ["C03", "C15", "C12"],
    "superrec2/model/tree_mapping.py": ["C12", "C01"],
    "superrec2/utils/dynamic_programming.py": ["C16", "C01"],
    "superrec2/utils/toposort.py": ["C19", "C02"],
    "superrec2/utils/disjoint_set.py": ["C20"],
    "superrec2/utils/trees.py": ["C20", "C08", "C01"],
    "superrec2/utils/subsequences.py": ["C02", "C05"],
    "superrec2/utils/range_min_query.py": ["C01", "C02"],
    "superrec2/utils/text.py": ["C15"],
    "superrec2/utils/tex.py": ["C15", "C14", "C12"],
    "superrec2/utils/geometry.py": ["C14", "C13"],
    "superrec2/render/layout.py": ["C14", "C13", "C15"],
    "superrec2/render/tikz.py": ["C13", "C15", "C14"],
    "superrec2/render/model.py": ["C14"],
    "superrec2/cli/reconcile.py": ["C12"],
    "superrec2/cli/draw.py": ["C12"],
    "superrec2/cli/util.py": ["C12"],
}

CMP = {ast.Lt: "<=", ast.LtE: "<", ast.Gt: ">=", ast.GtE: ">", ast.Eq: "!=", ast.NotEq: "=="}
CMP_TXT = {ast.Lt: "<", ast.LtE: "<=", ast.Gt: ">", ast.GtE: ">=", ast.Eq: "==", ast.NotEq: "!="}
BIN = {ast.Add: ("+", "-"), ast.Sub: ("-", "+")}
NAMES = {"min": "max", "max": "min", "is_ancestor_of": "is_strict_ancestor_of",
         "is_strict_ancestor_of": "is_ancestor_of", "left": "right", "right": "left"}


def offsets(text):
    lines = text.split("\n")
    starts = [0]
    for line in lines:
        starts.append(starts[-1] + len(line.encode()) + 1)
    return starts


def mutants_of(path):
    raw = open(path, "rb").read()
    text = raw.decode()
    tree = ast.parse(text)
    starts = offsets(text)

    def pos(lineno, col):
        return starts[lineno - 1] + col

    out = []

    def replace_between(a, b, old, new, what):
        seg = raw[a:b].decode()
        # the operator token lies between the two operands
        m = re.search(r"(?<![<>=!])" + re.escape(old) + r"(?![=])", seg)
        if m:
            out.append((a + len(seg[:m.start()].encode()), len(old.encode()), new, what))

    for node in ast.walk(tree):
        if isinstance(node, ast.Compare) and len(node.ops) == 1 and type(node.ops[0]) in CMP:
            left, right = node.left, node.comparators[0]
            a, b = pos(left.end_lineno, left.end_col_offset), pos(right.lineno, right.col_offset)
            replace_between(a, b, CMP_TXT[type(node.ops[0])], CMP[type(node.ops[0])],
                            f"L{node.lineno} {CMP_TXT[type(node.ops[0])]} -> {CMP[type(node.ops[0])]}")
        elif isinstance(node, ast.BinOp) and type(node.op) in BIN:
            a = pos(node.left.end_lineno, node.left.end_col_offset)
            b = pos(node.right.lineno, node.right.col_offset)
            old, new = BIN[type(node.op)]
            replace_between(a, b, old, new, f"L{node.lineno} {old} -> {new}")
        elif isinstance(node, ast.BoolOp):
            old, new = ("and", "or") if isinstance(node.op, ast.And) else ("or", "and")
            a = pos(node.values[0].end_lineno, node.values[0].end_col_offset)
            b = pos(node.values[1].lineno, node.values[1].col_offset)
            seg = raw[a:b].decode()
            m = re.search(r"\b" + old + r"\b", seg)
            if m:
                out.append((a + len(seg[:m.start()].encode()), len(old), new,
                            f"L{node.lineno} {old} -> {new}"))
        elif isinstance(node, ast.UnaryOp) and isinstance(node.op, ast.Not):
            a = pos(node.lineno, node.col_offset)
            if raw[a:a + 4] == b"not ":
                out.append((a, 4, "", f"L{node.lineno} dropped not"))
        elif isinstance(node, ast.Constant) and type(node.value) is int and node.value in (0, 1, 2):
            a = pos(node.lineno, node.col_offset)
            new = {0: "1", 1: "0", 2: "1"}[node.value]
            if raw[a:a + 1].decode() == str(node.value):
                out.append((a, 1, new, f"L{node.lineno} {node.value} -> {new}"))
        elif isinstance(node, ast.Constant) and isinstance(node.value, bool):
            a = pos(node.lineno, node.col_offset)
            old = str(node.value)
            if raw[a:a + len(old)].decode() == old:
                out.append((a, len(old), str(not node.value), f"L{node.lineno} {old} flipped"))
        elif isinstance(node, ast.Call):
            f = node.func
            name = f.id if isinstance(f, ast.Name) else (f.attr if isinstance(f, ast.Attribute) else None)
            if name in ("min", "max", "is_ancestor_of", "is_strict_ancestor_of"):
                end = pos(f.end_lineno, f.end_col_offset)
                a = end - len(name)
                if raw[a:end].decode() == name:
                    out.append((a, len(name), NAMES[name], f"L{node.lineno} {name} -> {NAMES[name]}"))
    seen = set()
    uniq = []
    for a, n, new, what in sorted(out):
        if (a, new) not in seen:
            seen.add((a, new))
            uniq.append((a, n, new, what))
    return raw, uniq


def apply(raw, mutant):
    a, n, new, _ = mutant
    return raw[:a] + new.encode() + raw[a + n:]


def _tests_pass(job):
    rel, idx, data = job
    scratch = tempfile.mkdtemp(prefix="mt.", dir=WORK)
    try:
        shutil.copytree(SRC, os.path.join(scratch, "src"))
        shutil.copytree("/repo/tests", os.path.join(scratch, "tests"))
        with open(os.path.join(scratch, "src", rel), "wb") as handle:
            handle.write(data)
        try:
            compile(data, rel, "exec")
        except SyntaxError:
            return rel, idx, "syntax"
        proc = subprocess.run(
            ["/venv/bin/python", "-m", "pytest", "-q", "-x", "-p", "no:cacheprovider",
             "--timeout=120", "--deselect", "tests/render/test_draw.py::test_fixtures",
             "--deselect", "tests/utils/test_tex.py::test_measure", "tests"],
            cwd=scratch, env=dict(os.environ, PYTHONPATH=os.path.join(scratch, "src")),
            capture_output=True, text=True, timeout=600)
        return rel, idx, "survives" if proc.returncode == 0 else "killed-by-tests"
    except subprocess.TimeoutExpired:
        return rel, idx, "timeout"
    finally:
        shutil.rmtree(scratch, ignore_errors=True)


def generate(max_per_file):
    import random

    os.makedirs(WORK, exist_ok=True)
    jobs, table = [], {}
    rng = random.Random(20260929)
    for rel in FILES:
        raw, muts = mutants_of(os.path.join(SRC, rel))
        if len(muts) > max_per_file:
            muts = sorted(rng.sample(muts, max_per_file))
        table[rel] = muts
        for i, m in enumerate(muts):
            jobs.append((rel, i, apply(raw, m)))
    print(f"{len(jobs)} mutants generated", flush=True)
    survivors, stats = [], {}
    with cf.ProcessPoolExecutor(max_workers=int(os.environ.get("MUT_WORKERS", "8"))) as pool:
        for rel, idx, verdict in pool.map(_tests_pass, jobs, chunksize=1):
            stats[verdict] = stats.get(verdict, 0) + 1
            if verdict == "survives":
                a, n, new, what = table[rel][idx]
                survivors.append({"file": rel, "offset": a, "length": n, "new": new, "what": what})
    json.dump({"stats": stats, "survivors": survivors}, open(os.path.join(WORK, "survivors.json"), "w"),
              indent=1)
    print(stats, len(survivors), "survive the baseline tests")


RANGES = {  # finer than FILES: (first line, last line, checks) for files that serve several properties
    "superrec2/model/reconciliation.py": [(1, 234, ["C12", "C08"]), (235, 380, ["C01", "C13"]),
                                          (381, 10 ** 6, ["C02", "C03"])],
    "superrec2/utils/trees.py": [(1, 147, ["C01", "C02"]), (148, 369, ["C20"]),
                                 (370, 10 ** 6, ["C08"])],
    "superrec2/utils/dynamic_programming.py": [(1, 10 ** 6, ["C16"])],
    "superrec2/utils/toposort.py": [(1, 10 ** 6, ["C19"])],
}


def checks_for(sv):
    m = re.match(r"L(\d+) ", sv["what"])
    line = int(m.group(1)) if m else 0
    for lo, hi, pids in RANGES.get(sv["file"], []):
        if lo <= line <= hi:
            return pids
    return FILES[sv["file"]][:2]


def check(first, last):
    doc = json.load(open(os.path.join(WORK, "survivors.json")))
    results_path = os.path.join(WORK, "results.json")
    results = json.load(open(results_path)) if os.path.exists(results_path) else {}
    for i, sv in enumerate(doc["survivors"][first:last], start=first):
        key = f"{sv['file']}@{sv['offset']}:{sv['new']}"
        if key in results:
            continue
        scratch = tempfile.mkdtemp(prefix="mc.", dir=WORK)
        try:
            shutil.copytree(SRC, os.path.join(scratch, "src"))
            path = os.path.join(scratch, "src", sv["file"])
            raw = open(path, "rb").read()
            open(path, "wb").write(raw[:sv["offset"]] + sv["new"].encode()
                                   + raw[sv["offset"] + sv["length"]:])
            verdict = {"caught_by": None, "label": None, "tried": [], "what": sv["what"]}
            for pid in checks_for(sv):
                env = dict(os.environ, VERIF_REPO_SRC=os.path.join(scratch, "src"),
                           VERIF_SCRATCH_OUT=os.path.join(scratch, "out"))
                try:
                    proc = subprocess.run([os.path.join(VERIF, "check"), pid, "--tier", "quick"],
                                          capture_output=True, text=True, env=env, timeout=900)
                    code, outp = proc.returncode, proc.stdout
                except subprocess.TimeoutExpired:
                    code, outp = 124, ""
                verdict["tried"].append([pid, code])
                if code == 1 and f"VIOLATION property={pid}" in outp:
                    label = re.search(r"violation class: (\S+)", outp)
                    verdict["caught_by"], verdict["label"] = pid, label.group(1) if label else None
                    break
            results[key] = verdict
            print(i, key, verdict["caught_by"], verdict["label"], verdict["tried"], flush=True)
            json.dump(results, open(results_path, "w"), indent=1)
        finally:
            shutil.rmtree(scratch, ignore_errors=True)
    summarise(doc, results)


def summarise(doc, results):
    by_file = {}
    for key, v in results.items():
        f = key.split("@")[0]
        row = by_file.setdefault(f, [0, 0, []])
        row[0] += 1
        if v["caught_by"]:
            row[1] += 1
        else:
            row[2].append(f"{v['what']} (tried {', '.join(p for p, _ in v['tried'])})")
    with open(os.path.join(VERIF, "tools", "MUTATION_SWEEP.md"), "w") as out:
        out.write("# One-token mutation sweep (tools/mutation_sweep.py)\n\n"
                  f"Mutants generated and filtered by the 55 baseline tests: {doc['stats']}.\n"
                  "For every surviving mutant the quick tier of the checks mapped to its file was "
                  "run against a scratch copy until one reported a violation. Survivors that no "
                  "check caught are listed; they were not triaged one by one - many are "
                  "equivalent (a comparison that can never be an equality, a constant only used "
                  "for spacing, a progress-bar argument).\n\n"
                  "| file | surviving the tests | caught by a check | not caught |\n|---|---|---|---|\n")
        tot = [0, 0]
        for f, (n, c, missed) in sorted(by_file.items()):
            tot[0] += n
            tot[1] += c
            out.write(f"| {f} | {n} | {c} | {n - c} |\n")
        out.write(f"| **total** | {tot[0]} | {tot[1]} | {tot[0] - tot[1]} |\n\n## Not caught\n\n")
        for f, (n, c, missed) in sorted(by_file.items()):
            for m in missed:
                out.write(f"* `{f}` {m}\n")
    print("summary written")


if __name__ == "__main__":
    if sys.argv[1] == "generate":
        generate(int(sys.argv[2]) if len(sys.argv) > 2 else 60)
    else:
        check(int(sys.argv[2]) if len(sys.argv) > 2 else 0,
              int(sys.argv[3]) if len(sys.argv) > 3 else 10 ** 9)
