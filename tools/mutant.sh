#!/bin/sh
# usage: tools/mutant.sh <patch-file|-e 'python-expr on s'> <property>...   (sensitivity test)
# Copies /repo/src to a scratch dir outside /repo and /verif, applies the change there, runs the
# quick checks against it without touching /verif/evidence, removes the scratch copy.
set -u
cd "$(dirname "$0")/.."
SCR=$(mktemp -d /tmp/mutant.XXXXXX)
trap 'rm -rf "$SCR"' EXIT
cp -r /repo/src "$SCR/src"
if [ "$1" = "-e" ]; then
    FILE="$2"; EXPR="$3"; shift 3
    python3 - "$SCR/src/$FILE" "$EXPR" <<'PY' || exit 3
import sys
p, expr = sys.argv[1], sys.argv[2]
s = open(p).read()
old, new = expr.split(" ==> ")
assert old in s, "pattern not found"
open(p, "w").write(s.replace(old, new, 1))
PY
else
    (cd "$SCR" && patch -s -p1 < "$1") || exit 3; shift
fi
for P in "$@"; do
    VERIF_REPO_SRC="$SCR/src" VERIF_SCRATCH_OUT="$SCR/out" ./check "$P" --tier "${TIER:-quick}" | tail -${TAILN:-4}
    echo "exit=$? ($P)"
done
