#!/venv/bin/python
"""Run the registered quick check of every seeded change's property against a scratch copy of
/repo/src with the change applied; write seeded/RESULTS.json and seeded/README.md.
usage: tools/seeded_all.py [seed ...]      (default seeds: 0)"""
import json
import os
import re
import shutil
import subprocess
import sys
import tempfile

VERIF = os.path.dirname(os.path.dirname(os.path.abspath(__file__)))
resume = None
argv = sys.argv[1:]
if "--resume" in argv:
    # names sorting before this one keep the results stored in their meta.json by an
    # earlier, interrupted run of this script
    i = argv.index("--resume")
    resume = argv[i + 1]
    del argv[i:i + 2]
only = None
if "--only" in argv:
    # re-run just these; every other change keeps the results stored in its meta.json
    i = argv.index("--only")
    only = set(argv[i + 1].split(","))
    del argv[i:i + 2]
seeds = [int(x) for x in argv] or [0]
rows = []
for name in sorted(os.listdir(os.path.join(VERIF, "seeded"))):
    d = os.path.join(VERIF, "seeded", name)
    if not os.path.isfile(os.path.join(d, "patch.diff")):
        continue
    meta = json.load(open(os.path.join(d, "meta.json")))
    pid = meta["property"]
    confirm = open(os.path.join(d, "confirm.log")).read().splitlines()[:3] \
        if os.path.exists(os.path.join(d, "confirm.log")) else []
    results = {}
    if meta.get("equivalent_since"):
        rows.append({"id": name, "property": pid, "summary": meta.get("summary", ""),
                     "needs": "NO LONGER A BREAKING CHANGE: " + meta["equivalent_since"],
                     "confirmed": confirm, "checks": {}, "equivalent": True})
        continue
    if (resume is not None and name < resume) or (only is not None and name not in only):
        results = meta.get("verif_confirmation", {}).get("quick_check", {})
        rows.append({"id": name, "property": pid, "summary": meta.get("summary", ""),
                     "needs": meta.get("needs", ""), "confirmed": confirm, "checks": results})
        continue
    for seed in seeds:
        if any(r["caught"] for r in results.values()):
            break  # later seeds are only spent on changes not caught so far
        scr = tempfile.mkdtemp(prefix="seeded.")
        try:
            shutil.copytree("/repo/src", os.path.join(scr, "src"))
            applied = subprocess.run(["patch", "-s", "-p1", "-i", os.path.join(d, "patch.diff")],
                                     cwd=scr, capture_output=True, text=True)
            if applied.returncode != 0:
                # written against the tree before one of our repairs changed the same lines
                meta["stale_patch"] = ("no longer applies to the repaired tree: "
                                       + applied.stdout.strip().splitlines()[0][:160])
                break
            env = dict(os.environ, VERIF_REPO_SRC=os.path.join(scr, "src"),
                       VERIF_SCRATCH_OUT=os.path.join(scr, "out"), VERIF_SEED=str(seed))
            proc = subprocess.run([os.path.join(VERIF, "check"), pid, "--tier", "quick"],
                                  capture_output=True, text=True, env=env, timeout=1800)
            label = re.search(r"violation class: (\S+)", proc.stdout)
            wall = re.search(r"runs=(\d+).*wall=([\d.]+)s", proc.stdout)
            results[str(seed)] = {
                "exit": proc.returncode,
                "caught": proc.returncode == 1 and f"VIOLATION property={pid}" in proc.stdout,
                "label": label.group(1) if label else None,
                "runs_until_verdict": int(wall.group(1)) if wall else None,
                "wall_s": float(wall.group(2)) if wall else None,
            }
        finally:
            shutil.rmtree(scr, ignore_errors=True)
        print(name, pid, seed, results[str(seed)], flush=True)
    if meta.get("stale_patch") and not results:
        rows.append({"id": name, "property": pid, "summary": meta.get("summary", ""),
                     "needs": "PATCH " + meta["stale_patch"] + " (it was caught when it was "
                     "written: see confirm.log)", "confirmed": confirm, "checks": {},
                     "equivalent": True})
        json.dump(meta, open(os.path.join(d, "meta.json"), "w"), indent=1)
        continue
    rows.append({"id": name, "property": pid, "summary": meta.get("summary", ""),
                 "needs": meta.get("needs", ""), "confirmed": confirm, "checks": results})
    meta["verif_confirmation"] = {"confirmed_in_scratch_worktree": confirm, "quick_check": results}
    json.dump(meta, open(os.path.join(d, "meta.json"), "w"), indent=1)
json.dump(rows, open(os.path.join(VERIF, "seeded", "RESULTS.json"), "w"), indent=1)
with open(os.path.join(VERIF, "seeded", "README.md"), "w") as out:
    out.write("# Seeded changes\n\nEach directory holds a change to superrec2 written by an "
              "independent sub-agent that saw only the text of one property and a scratch "
              "worktree of /repo (never /verif): `patch.diff`, its own demonstration `demo.py` "
              "(exits 1 with the change, 0 without), `meta.json` (what it needs to manifest, what "
              "was run) and `confirm.log` (our own confirmation in the scratch worktree: the 55 "
              "baseline tests still pass with the change, the demo fails with it and passes "
              "without). None of these is ever applied to /repo itself; the checks are run "
              "against a scratch copy of /repo/src (`tools/seeded_all.py`, `tools/mutant.sh`).\n\n"
              f"Result of the *quick* tier of the property's registered check, seeds {seeds} "
              "(a later seed is only tried when the earlier ones did not catch the change):\n\n"
              "| change | property | caught (seed: label, runs until verdict) | needs |\n"
              "|---|---|---|---|\n")
    for r in rows:
        cells = []
        for seed, res in r["checks"].items():
            cells.append(f"{seed}: " + (f"**{res['label']}** after {res['runs_until_verdict']} runs"
                                         if res["caught"] else f"missed (exit {res['exit']})"))
        needs = str(r["needs"]).replace("|", "/").replace("\n", " ")[:260]
        out.write(f"| {r['id']} | {r['property']} | {'; '.join(cells) or 'n/a'} | {needs} |\n")
    live = [r for r in rows if not r.get("equivalent")]
    n_caught = sum(1 for r in live if any(c["caught"] for c in r["checks"].values()))
    first = str(seeds[0])
    n_first = sum(1 for r in live if r["checks"].get(first, {}).get("caught"))
    out.write(f"\n{n_caught} of {len(live)} caught by at least one of the seeds, {n_first} "
              f"already by seed {first}; {len(rows) - len(live)} no longer break the property "
              f"on the repaired tree or no longer apply to it (see their row). Changes reported as missed under every "
              f"seed are discussed in DESIGN.md section 10.1 (most of them need inputs outside "
              f"the stated scope of their property).\n")
print("done")
