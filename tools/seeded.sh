#!/bin/sh
# usage: tools/seeded.sh <worktree-dir> <n> <seeded-id> <property> [more properties...]
# 1. confirms the seeded change in the agent's scratch worktree: baseline tests still pass with the
#    patch, demo fails with it and passes without;  2. stores it under /verif/seeded/<seeded-id>/;
# 3. runs the named quick checks against a scratch copy of /repo/src with the patch applied.
set -u
WT="$1"; N="$2"; ID="$3"; shift 3
cd "$(dirname "$0")/.."
OUT="seeded/$ID"; mkdir -p "$OUT"
cp "$WT/seeded_out/patch$N.diff" "$OUT/patch.diff"
cp "$WT/seeded_out/demo$N.py" "$OUT/demo.py"
cp "$WT/seeded_out/meta$N.json" "$OUT/meta.json"
LOG="$OUT/confirm.log"; : > "$LOG"
( cd "$WT" && git checkout -q -- . && git apply "seeded_out/patch$N.diff" ) || { echo "patch does not apply" | tee -a "$LOG"; exit 3; }
( cd "$WT" && PYTHONPATH="$WT/src" /venv/bin/python -m pytest -q -p no:cacheprovider --timeout=900 tests 2>&1 | tail -1 ) | sed 's/^/tests with patch: /' | tee -a "$LOG"
( cd "$WT" && PYTHONPATH="$WT/src" timeout 600 /venv/bin/python "seeded_out/demo$N.py" >/dev/null 2>&1; echo "demo with patch: exit $?" ) | tee -a "$LOG"
( cd "$WT" && git checkout -q -- . )
( cd "$WT" && PYTHONPATH="$WT/src" timeout 600 /venv/bin/python "seeded_out/demo$N.py" >/dev/null 2>&1; echo "demo without patch: exit $?" ) | tee -a "$LOG"
for P in "$@"; do
    RES=$(tools/mutant.sh "$PWD/$OUT/patch.diff" "$P" 2>&1)
    if echo "$RES" | grep -q "^VIOLATION property=$P"; then V="CAUGHT"; else V="missed"; fi
    echo "check $P (quick, seed ${VERIF_SEED:-0}): $V" | tee -a "$LOG"
    echo "$RES" | grep -E "violation class|^message" | cut -c1-400 | tee -a "$LOG"
    echo "$RES" | tail -2 | head -1 | tee -a "$LOG"
done
