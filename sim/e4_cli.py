"""Engine E4 (cli-pipeline): `superrec2 reconcile` / `draw` executed in-process as simulated
processes over a simulated file system and stdio (seam S3), the TeX peer (S4), the order
oracle (S1) and the tqdm clock (S5).  Serves C12.
"""
import errno
import hashlib
import io
import json
import re
import sys
import traceback

from hypothesis import strategies as st

from . import canon, e1_solver, ref
from .e5_render import parse_tikz
from .kernel import CLOCK, ORACLE, HarnessError, Run
from .kernel import RunDoesNotReturn as kernel_RunDoesNotReturn
from .peer import PEER

NAME = "E4-cli-pipeline"
_m = {}


def prepare():
    import argparse

    import superrec2.cli.__main__ as cli
    from superrec2.model import reconciliation as model
    from superrec2.utils import tex

    _m.update(cli=cli, model=model, argparse=argparse)
    PEER.install(tex)
    e1_solver.prepare()


# --------------------------------------------------------------------------------------
# S3: simulated files and stdio
# --------------------------------------------------------------------------------------
class SimCrash(BaseException):
    """The simulated process is killed (SIGKILL-like): nothing runs after this point, what
    sits in user-space buffers is lost, only what reached the raw layer is on the disk."""


class SimRaw(io.RawIOBase):
    """Raw file on the simulated disk: short reads/writes and errno faults happen here, below
    the real io.BufferedReader/Writer/TextIOWrapper stack."""

    def __init__(self, fs, path, mode, name=None):
        super().__init__()
        self.fs, self.path, self.mode = fs, path, mode
        self.name = name if name is not None else path
        self.pos = 0
        if "w" in mode:
            fs.files[path] = bytearray()
        self.data = fs.files[path]

    def readable(self):
        return "r" in self.mode

    def writable(self):
        return "w" in self.mode

    def readinto(self, b):
        fs = self.fs
        if fs.fault == "EIO" and self.path == fs.fault_path and self.pos >= fs.fault_at:
            fs.fired["EIO"] = fs.fired.get("EIO", 0) + 1
            raise OSError(errno.EIO, "simulated I/O error")
        n = len(b)
        if fs.short and n > 1:
            n = max(1, n // 3)
            fs.fired["short_read"] = fs.fired.get("short_read", 0) + 1
        chunk = self.data[self.pos:self.pos + n]
        b[:len(chunk)] = chunk
        self.pos += len(chunk)
        return len(chunk)

    def write(self, b):
        fs = self.fs
        n = len(b)
        if self.path in fs.dead:
            return n  # a buffer of a killed process flushed by the garbage collector: lost
        if fs.fault == "CRASH" and self.path == fs.fault_path and len(self.data) + n > fs.fault_at:
            keep = max(0, fs.fault_at - len(self.data))
            self.data.extend(bytes(b[:keep]))  # a torn write: part of the block made it
            fs.fired["CRASH"] = fs.fired.get("CRASH", 0) + 1
            fs.dead.add(self.path)
            raise SimCrash()
        if fs.fault in ("ENOSPC", "EPIPE") and self.path == fs.fault_path:
            room = fs.fault_at - len(self.data)
            if room <= 0:
                fs.fired[fs.fault] = fs.fired.get(fs.fault, 0) + 1
                raise OSError(getattr(errno, fs.fault), "simulated " + fs.fault)
            n = min(n, room)
        if fs.short and n > 1:
            n = max(1, n // 2)
            fs.fired["short_write"] = fs.fired.get("short_write", 0) + 1
        self.data.extend(bytes(b[:n]))
        fs.raw_writes[self.path] = fs.raw_writes.get(self.path, 0) + 1
        return n


class SimFS:
    def __init__(self):
        self.files = {}
        self.opened = []
        self.fault = None
        self.fault_path = None
        self.fault_at = 0
        self.short = False
        self.fired = {}
        self.raw_writes = {}
        self.dead = set()
        self.locale = "utf-8"  # what open() and the standard streams use when none is given
        self.strict_warnings = False

    def put(self, path, text):
        self.files[path] = bytearray(text.encode())

    def text(self, path):
        return bytes(self.files.get(path, b"")).decode()

    def open(self, path, mode="r", bufsize=-1, encoding=None, errors=None):
        if "r" in mode and path not in self.files:
            raise FileNotFoundError(errno.ENOENT, "No such file or directory", path)
        self.dead.discard(path)
        raw = SimRaw(self, path, mode)
        if "r" in mode:
            buf = io.BufferedReader(raw, buffer_size=64)
        else:
            buf = io.BufferedWriter(raw, buffer_size=256)
        fobj = buf if "b" in mode else io.TextIOWrapper(buf, encoding=encoding or self.locale,
                                                        errors=errors)
        if "b" in mode:
            # BufferedWriter.name proxies raw.name
            pass
        self.opened.append(fobj)
        return fobj


class Proc:
    """Result of one simulated process."""

    def __init__(self):
        self.status = None
        self.stdout = ""
        self.stderr = ""
        self.exception = None


def _killed(fs, proc):
    """SIGKILL-like end: no (further) interpreter shutdown, what sits in buffers is lost."""
    proc.status = -9
    for fobj in fs.opened:
        if isinstance(getattr(fobj, "name", None), str):
            fs.dead.add(fobj.name)
    fs.dead.add("<stdout>")
    fs.opened = []


def run_process(fs, argv, stdin_text="", order=0, clock=0):
    cli = _m["cli"]
    argparse = _m["argparse"]
    proc = Proc()
    old = (sys.argv, sys.stdin, sys.stdout, sys.stderr, getattr(argparse, "open", None))
    fs.opened = []
    fs.dead.discard("<stdout>")
    fs.files["<stdout>"] = bytearray()
    out_raw = SimRaw(fs, "<stdout>", "w", name="<stdout>")
    stdout = io.TextIOWrapper(io.BufferedWriter(out_raw, buffer_size=256), encoding=fs.locale)
    stderr = io.StringIO()
    stdin = io.TextIOWrapper(io.BytesIO(stdin_text.encode()), encoding=fs.locale)
    sys.argv = ["superrec2"] + list(argv)
    sys.stdin, sys.stdout, sys.stderr = stdin, stdout, stderr
    argparse.open = fs.open
    ORACLE.begin(order)
    CLOCK.begin(clock)
    import warnings

    saved_filters = warnings.filters[:]
    if fs.strict_warnings:
        warnings.filterwarnings("error", category=UserWarning)  # python -W error::UserWarning
    try:
        try:
            code = cli.run()
            proc.status = 0 if code is None else code
        except SystemExit as exc:
            code = exc.code
            proc.status = 0 if code is None else (code if isinstance(code, int) else 1)
        except HarnessError:
            raise
        except SimCrash:
            _killed(fs, proc)
        except kernel_RunDoesNotReturn:
            raise  # the per-run limit of the harness, not an event inside the simulated process
        except BaseException as exc:  # noqa: BLE001 - an uncaught exception ends a process with 1
            proc.exception = exc
            proc.status = 1
            stderr.write("".join(traceback.format_exception_only(type(exc), exc)))
        # interpreter shutdown: files the program never closed are flushed and closed,
        # errors at that point are swallowed (CPython prints 'Exception ignored')
        try:
            for fobj in fs.opened:
                try:
                    if not fobj.closed:
                        fobj.close()
                except OSError:
                    pass
            try:
                stdout.flush()
            except OSError:
                if proc.status == 0:
                    proc.status = 120
        except SimCrash:
            _killed(fs, proc)  # the kill may land while buffers are flushed at exit
    finally:
        warnings.filters[:] = saved_filters
        sys.argv, sys.stdin, sys.stdout, sys.stderr = old[:4]
        if old[4] is None:
            del argparse.open
        else:
            argparse.open = old[4]
    proc.stdout = bytes(fs.files["<stdout>"]).decode(errors="replace")
    proc.stderr = stderr.getvalue()
    return proc


# --------------------------------------------------------------------------------------
# strategy
# --------------------------------------------------------------------------------------
@st.composite
def _case(draw, pid, tier):
    thorough = tier == "thorough"
    labelled = draw(st.integers(0, 2)) != 0
    polytomy = labelled and draw(st.integers(0, 5)) == 0
    # five leaves and more: pre-order and level-order numbering of unnamed ancestors differ
    max_obj = (5 if thorough else 4) if polytomy else (6 if not labelled else 5)
    spec = draw(e1_solver._input(labelled, max_obj, 4 if polytomy else 5, 3, polytomy, True))
    spec["named"] = draw(st.sampled_from([0, 0, 1, 2, 2, 3]))
    spec["root_order"] = None
    binary = ref.is_binary(spec["object"]) and ref.is_binary(spec["species"])
    if labelled and binary:
        algos = list(e1_solver.ALGOS)
    elif labelled:
        algos = ["ext_spfs", "superdtl"]
    else:
        algos = ["lca", "thl", "exh"]
    if not binary and not labelled:
        spec["object"] = _binarise(spec["object"])
        spec["species"] = _binarise(spec["species"])
    case = {
        "engine": NAME,
        "spec": spec,
        "algo": draw(st.sampled_from(algos)),
        "explicit_map": draw(st.booleans()),
        "lower_prefix": draw(st.integers(0, 4)) == 0,
        "cost_args": draw(st.sampled_from(["none", "all", "some"])),
        "orders": [draw(st.integers(0, 20)) for _ in range(4)],
        "clock": draw(st.integers(0, 3)),
        "stdin_input": draw(st.booleans()),
        "draw": draw(st.sampled_from(["file", "stdout", "pdf", "none"])),
        "draw_orient": draw(st.sampled_from(["vertical", "horizontal", None])),
        "peer": {"seed": draw(st.integers(1, 999)), "chatter": draw(st.booleans()),
                 "engine": draw(st.sampled_from(["tectonic", "xelatex", "both"]))},
        "short_io": draw(st.booleans()),
        "error_path": draw(st.integers(0, 3)) == 0,
        "fault": None,
        # which of the two reconcile processes write to stdout (no --output option)
        "out_stdout": [draw(st.integers(0, 3)) == 0, draw(st.integers(0, 3)) == 0],
        # unit costs given on the command line are multiplied by this (large optimum values:
        # seven and more significant digits in the printed minimum)
        "cost_scale": draw(st.sampled_from([1, 1, 1, 1, 1000003, 250])),
        "prior": None,
        # the environment of the simulated processes: locale encoding of text streams,
        # user warnings escalated to errors, a name outside ASCII in the input document
        "env": {"locale": draw(st.sampled_from(["utf-8", "utf-8", "ascii", "latin-1"])),
                "strict_warnings": draw(st.integers(0, 3)) == 0,
                "unicode_name": draw(st.integers(0, 3)) == 0},
    }
    if draw(st.integers(0, 3)) == 0:
        # an earlier invocation of the tool in the same interpreter (a caller that uses the
        # entry point as a function) with other cost options and possibly another algorithm
        case["prior"] = {
            "costs": draw(e1_solver._costs(labelled)),
            "algo": draw(st.sampled_from(algos)),
            "draw": draw(st.booleans()),
        }
    if draw(st.integers(0, 3)) == 0:
        case["fault"] = {
            "kind": draw(st.sampled_from(["ENOSPC", "EPIPE", "EIO", "CRASH", "CRASH"])),
            "at": draw(st.integers(0, 1500)),
            "target": draw(st.sampled_from(["any", "all"])),
        }
    return case


def _binarise(nested):
    if isinstance(nested, str):
        return nested
    kids = [_binarise(c) for c in nested]
    while len(kids) > 2:
        kids = [[kids[0], kids[1]]] + kids[2:]
    return kids


def strategy(pid, tier):
    return _case(pid, tier)


# --------------------------------------------------------------------------------------
# expectations
# --------------------------------------------------------------------------------------
def input_document(case):
    """The JSON document a user would write (documented format)."""
    spec = case["spec"]
    onames = canon.internal_names(spec["object"], "O", spec["named"])
    snames = canon.internal_names(spec["species"], "S", spec["named"])
    rename = {}
    if case["lower_prefix"] and not case["explicit_map"]:
        # species inference is documented as case-insensitive
        for leaf in ref.nested_leaves(spec["object"]):
            sp, rest = leaf.split("_", 1)
            rename[leaf] = f"{sp.lower()}_{rest}"
    obj = canon.nested_map(spec["object"], lambda x: rename.get(x, x))
    onames = {tuple(sorted(rename.get(x, x) for x in clade)): n for clade, n in onames.items()}
    doc = {
        "object_tree": ref.to_newick(obj, onames),
        "species_tree": ref.to_newick(spec["species"], snames),
    }
    leaf_species = {rename.get(leaf, leaf): leaf.split("_")[0]
                    for leaf in ref.nested_leaves(spec["object"])}
    if case["explicit_map"]:
        doc["leaf_object_species"] = leaf_species
    if spec["syn"] is not None:
        doc["leaf_syntenies"] = {rename.get(leaf, leaf): list(s) for leaf, s in spec["syn"].items()}
    return doc, obj, onames, snames, leaf_species


def expected_names(nested, given, prefix):
    """Documented automatic naming: unnamed ancestors become <prefix># with indices increasing
    in pre-order, skipping names already present; existing names untouched.  {clade: name}."""
    taken = set(given.values()) | set(ref.nested_leaves(nested))
    out = dict(given)
    counter = [0]

    def go(x):
        if isinstance(x, str):
            return (x,)
        clade = tuple(sorted(ref.nested_leaves(x)))
        if clade not in out:
            while f"{prefix}{counter[0]}" in taken:
                counter[0] += 1
            out[clade] = f"{prefix}{counter[0]}"
            taken.add(out[clade])
        for c in x:
            go(c)
        return clade

    go(nested)
    return out


COST_RE = re.compile(r"Minimum cost: (\S+)")


def cost_args(case, costs=None, how=None):
    costs = case["spec"]["costs"] if costs is None else costs
    how = how or case["cost_args"]
    scale = case.get("cost_scale", 1)
    flags = {"spe": "--cost-spe", "dup": "--cost-dup", "hgt": "--cost-hgt",
             "floss": "--cost-floss", "sloss": "--cost-sloss"}
    default = {"spe": 0, "dup": 1, "hgt": 1, "floss": 1, "sloss": 1}
    if how == "none":
        return [], default
    chosen = dict(default)
    args = []
    for i, (k, flag) in enumerate(flags.items()):
        if how == "some" and i % 2:
            continue
        v = costs[k]
        if v != "inf" and scale != 1:
            v = v * scale
        args += [flag, "float('inf')" if v == "inf" else str(v)]
        chosen[k] = v
    labelled = case["spec"]["syn"] is not None
    if not e1_solver.in_region(chosen, labelled):
        return [], default
    return args, chosen


# --------------------------------------------------------------------------------------
# executor
# --------------------------------------------------------------------------------------
def parse_solution(line):
    model = _m["model"]
    data = json.loads(line)
    if "syntenies" in data:
        return data, model.SuperReconciliationOutput.from_dict(data)
    return data, model.ReconciliationOutput.from_dict(data)


def solution_key(out, labelled):
    return (ref.nested_clades(canon.ete_to_nested(out.input.object_tree)),
            ref.nested_clades(canon.ete_to_nested(out.input.species_lca.tree)),
            canon.output_key(out, labelled))


# --------------------------------------------------------------------------------------
# real-process cross-check of the simulated process boundary (seam S3)
# --------------------------------------------------------------------------------------
def _plain_doc(case):
    doc = input_document(case)[0]
    return doc


def _canon_lines(text, mode):
    """Canonical, order-free view of what a reconcile process wrote."""
    keys = []
    for line in text.split("\n"):
        if not line.strip():
            continue
        try:
            data, out = parse_solution(line)
        except Exception as exc:  # noqa: BLE001
            keys.append("UNREADABLE " + type(exc).__name__)
            continue
        keys.append(repr(solution_key(out, "syntenies" in data)))
    return sorted(keys)


def simulated_reconcile(case, policy, order, to_stdout):
    """One fault-free simulated `reconcile` process -> (status, printed cost, canonical lines)."""
    doc = _plain_doc(case)
    fs = SimFS()
    fs.put("in.json", json.dumps(doc))
    extra, _ = cost_args(case)
    argv = ["reconcile", "--input", "in.json"]
    if not to_stdout:
        argv += ["--output", "out.json"]
    argv += [case["algo"], "--solutions", policy] + extra
    proc = run_process(fs, argv, "", order, 0)
    text = proc.stdout if to_stdout else fs.text("out.json")
    printed = COST_RE.findall(proc.stderr)
    return proc.status, printed, _canon_lines(text, e1_solver.MODE[case["algo"]])


def real_reconcile(case, policy, hashseed, to_stdout):
    """The same command as a real child process of the uninstrumented package: real files in
    a scratch directory, real stdout / stderr, a real exit status, a real hash seed."""
    import os
    import shutil
    import subprocess
    import tempfile

    from .kernel import SRC

    doc = _plain_doc(case)
    scratch = tempfile.mkdtemp(prefix="e4real.")
    try:
        with open(os.path.join(scratch, "in.json"), "w") as handle:
            json.dump(doc, handle)
        extra, _ = cost_args(case)
        from . import kernel as _kernel

        argv = [sys.executable] + (["-O"] if _kernel.PYOPT else [])
        argv += ["-m", "superrec2.cli", "reconcile", "--input", "in.json"]
        if not to_stdout:
            argv += ["--output", "out.json"]
        argv += [case["algo"], "--solutions", policy] + extra
        env = {k: v for k, v in os.environ.items() if not k.startswith("VERIF_")}
        env.update(PYTHONHASHSEED=str(hashseed), PYTHONPATH=SRC, PYTHONDONTWRITEBYTECODE="1")
        proc = subprocess.run(argv, cwd=scratch, env=env, capture_output=True, text=True,
                              timeout=300, stdin=subprocess.DEVNULL)
        text = proc.stdout
        if not to_stdout:
            path = os.path.join(scratch, "out.json")
            text = open(path).read() if os.path.exists(path) else ""
        printed = COST_RE.findall(proc.stderr)
        return proc.returncode, printed, _canon_lines(text, e1_solver.MODE[case["algo"]])
    finally:
        shutil.rmtree(scratch, ignore_errors=True)


def real_check(run, case, real_results=None):
    """Simulated process vs real process, same command: exit status, printed minimum and the
    set of written solutions must agree (ALL), the real ANY line must belong to that set.
    `real_results` may hold the outcomes of the real processes when they were already run
    (concurrently, by the post phase); a replay runs them here."""
    cfg = case["real"]
    sim_status, sim_printed, sim_lines = simulated_reconcile(case, "all", cfg["order"], False)

    def real(policy, hashseed, to_stdout):
        if real_results is not None:
            return real_results[policy, hashseed]
        return real_reconcile(case, policy, hashseed, to_stdout)

    for hashseed in cfg["hashseeds"]:
        status, printed, lines = real("all", hashseed, False)
        run.check((status, printed, lines) == (sim_status, sim_printed, sim_lines), ("C12",),
                  "C12.real-process-differs",
                  lambda: f"reconcile {case['algo']} --solutions all as a real process under "
                          f"PYTHONHASHSEED={hashseed}: status {status}, printed {printed}, "
                          f"{len(lines)} lines; the simulated process: status {sim_status}, "
                          f"printed {sim_printed}, {len(sim_lines)} lines; only real "
                          f"{sorted(set(lines) - set(sim_lines))[:1]}; only simulated "
                          f"{sorted(set(sim_lines) - set(lines))[:1]}; document {_plain_doc(case)}")
        status, printed, any_lines = real("any", hashseed, True)
        run.check(status == sim_status and printed == sim_printed
                  and set(any_lines) <= set(sim_lines), ("C12",), "C12.real-process-differs",
                  lambda: f"reconcile {case['algo']} --solutions any to stdout as a real process "
                          f"under PYTHONHASHSEED={hashseed}: status {status}, printed {printed}, "
                          f"lines {any_lines[:1]} not among the {len(sim_lines)} written by "
                          f"--solutions all; document {_plain_doc(case)}")
        run.fault("real_process", 2)
    run.nontrivial = True
    run.event("real", sim_status, sim_printed, len(sim_lines))
    return run


def post_phase(pid, tier, base_seed, cases):
    """After the seeded search: a sample of its cases is run again as real child processes of
    the uninstrumented package (real files, streams, exit status and hash seeds) and compared
    with the simulated processes - the fidelity check of seam S3."""
    from .kernel import Violation, case_digest, derive_seed

    limit = 24 if tier == "thorough" else 8
    picked = []
    for case in cases:
        if len(picked) >= limit:
            break
        if case.get("algo") in ("exh",) and len(picked) % 2:
            continue
        picked.append(case)
    out = {"evaluations": 0, "checks": 0, "faults": {}, "probes": {"real_cases": len(picked)},
           "failure": None, "digests": []}
    import concurrent.futures

    real_cases = [
        dict(case, fault=None, prior=None, short_io=False,
             env={"locale": "utf-8", "strict_warnings": False, "unicode_name": False},
             real={"hashseeds": [derive_seed(base_seed, "e4-real", i, j) % 4294967295
                                 for j in range(2)],
                   "order": 1 + i % 7})
        for i, case in enumerate(picked)]
    # the real child processes only wait for the operating system: run them side by side
    with concurrent.futures.ThreadPoolExecutor(max_workers=8) as pool:
        futures = {}
        for i, real_case in enumerate(real_cases):
            for hashseed in real_case["real"]["hashseeds"]:
                for policy, to_stdout in (("all", False), ("any", True)):
                    futures[i, policy, hashseed] = pool.submit(
                        real_reconcile, real_case, policy, hashseed, to_stdout)
        outcomes = {key: fut.result() for key, fut in futures.items()}
    for i, (case, real_case) in enumerate(zip(picked, real_cases)):
        run = Run(pid)
        try:
            real_check(run, real_case, {(policy, hs): outcomes[i, policy, hs]
                                        for (j, policy, hs) in outcomes if j == i})
        except Violation as v:
            if out["failure"] is None:
                out["failure"] = {"case": real_case, "label": v.label, "message": v.message}
        out["evaluations"] += 1 + 4
        out["checks"] += run.checks
        for k, n in run.faults.items():
            out["faults"][k] = out["faults"].get(k, 0) + n
        out["digests"].append("real-" + case_digest(case))
    return out


def execute(case, focus=None):
    run = Run(focus)
    if case.get("real"):
        ORACLE.begin(0)
        return real_check(run, case)
    spec = case["spec"]
    algo = case["algo"]
    mode = e1_solver.MODE[algo]
    labelled_input = spec["syn"] is not None
    doc, obj_nested, onames, snames, leaf_species = input_document(case)
    env = case.get("env") or {}
    if env.get("unicode_name") and labelled_input:
        # one gene family gets a name outside ASCII (the document itself stays pure ASCII:
        # json.dumps escapes it, as any JSON writer may)
        fams = sorted({f for s in doc["leaf_syntenies"].values() for f in s})
        if fams:
            ren = {fams[0]: fams[0] + "\u00e9\u03a9"}
            doc["leaf_syntenies"] = {k: [ren.get(f, f) for f in v]
                                     for k, v in doc["leaf_syntenies"].items()}
            run.probe("non_ascii_name")
    fs = SimFS()
    fs.locale = env.get("locale", "utf-8")
    fs.strict_warnings = bool(env.get("strict_warnings"))
    if fs.locale != "utf-8":
        run.probe("non_utf8_locale")
    fs.short = bool(case["short_io"])
    fs.put("in.json", json.dumps(doc))
    extra, costs = cost_args(case)
    costs = dict(costs)
    if costs["hgt"] == "inf":
        costs["hgt"] = float("inf")
    PEER.configure(case["peer"])
    fault = case["fault"]
    if fs.short:
        run.probe("short_io")
        run.nontrivial = True
    if extra and case.get("cost_scale", 1) != 1:
        run.probe("large_costs")

    def reconcile(policy, out_path, order, with_fault):
        argv = ["reconcile"]
        stdin_text = ""
        if case["stdin_input"]:
            stdin_text = json.dumps(doc)
        else:
            argv += ["--input", "in.json"]
        if out_path != "<stdout>":
            argv += ["--output", out_path]
        argv += [algo, "--solutions", policy] + extra
        fs.fault = None
        if with_fault:
            fs.fault = fault["kind"]
            fs.fault_at = fault["at"]
            fs.fault_path = "in.json" if fault["kind"] == "EIO" else out_path
        before = dict(fs.fired)
        proc = run_process(fs, argv, stdin_text, order, case["clock"])
        fs.fault = None
        fired = {k: v - before.get(k, 0) for k, v in fs.fired.items() if v != before.get(k, 0)}
        return proc, fired

    binary = ref.is_binary(spec["object"]) and ref.is_binary(spec["species"])
    prior = case.get("prior")
    if prior:
        # what this invocation does is not checked here (other runs check it): it only has
        # to have happened, in the same interpreter, before the invocations that are checked
        pextra, _ = cost_args(case, prior["costs"], "all")
        if pextra:
            argv = ["reconcile", "--input", "in.json", "--output", "prior.json", prior["algo"],
                    "--solutions", "all"] + pextra
            pproc = run_process(fs, argv, "", case["orders"][3], 0)
            run.probe("prior_invocation_other_costs")
            if prior["draw"] and pproc.status == 0 and fs.text("prior.json"):
                fs.put("prior1.json", fs.text("prior.json").split("\n")[0] + "\n")
                run_process(fs, ["draw", "--input", "prior1.json", "--output", "prior.tex"], "",
                            case["orders"][2], 0)
            run.event("prior", pproc.status,
                      hashlib.sha256(fs.text("prior.json").encode()).hexdigest())
    rin = None
    results = {}
    no_solution = False
    if mode == "ordered":
        seqs = [tuple(v) for v in spec["syn"].values()]
        no_solution = not ref.root_orders(seqs, set().union(*map(set, seqs)))
    for policy, order in (("all", case["orders"][0]), ("any", case["orders"][1])):
        with_fault = fault is not None and fault["target"] == policy
        to_stdout = bool((case.get("out_stdout") or [0, 0])[policy == "any"])
        out_path = "<stdout>" if to_stdout else f"{policy}.json"
        proc, fired = reconcile(policy, out_path, order, with_fault)
        if to_stdout:
            run.probe("reconcile_to_stdout")
        where = f"reconcile {algo} --solutions {policy}"
        faulted = any(k in fired for k in ("ENOSPC", "EPIPE", "EIO", "CRASH"))
        for k, n in fired.items():
            if k in ("ENOSPC", "EPIPE", "EIO", "CRASH"):
                run.fault("F3_" + k, n)
        if ORACLE.permuted:
            run.probe("order_permuted", ORACLE.permuted)
            run.nontrivial = True
        if CLOCK.jumps:
            run.fault("F5_clock_jump", CLOCK.jumps)
        text = proc.stdout if to_stdout else fs.text(out_path)
        lines = text.split("\n")
        complete, tail = lines[:-1], lines[-1]
        if not faulted and no_solution:
            # the ordered solvers have nothing to write when no gene order is compatible with
            # all leaves: an empty output (whatever the status) is the documented outcome
            run.check(text == "", ("C12",), "C12.output-without-solution",
                      lambda: f"{where}: leaf orders are inconsistent but something was written")
            run.probe("inconsistent_leaf_orders")
            results[policy] = ([], False, [])
            continue
        if not faulted:
            run.check(proc.status == 0, ("C12",), "C12.reconcile-failed",
                      lambda: f"{where}: exit status {proc.status}, stderr tail "
                              f"{proc.stderr[-400:]!r}; input document {doc}")
            if proc.status != 0:
                return run
            run.check(tail == "" and complete, ("C12",), "C12.output-not-lines",
                      lambda: f"{where}: output is not one JSON object per line: {text[-200:]!r}")
            m = COST_RE.findall(proc.stderr)
            run.check(len(m) == 1, ("C12",), "C12.cost-line-missing",
                      lambda: f"{where}: stderr has {len(m)} 'Minimum cost:' lines: "
                              f"{proc.stderr[-300:]!r}")
            printed = m[0] if m else None
        else:
            printed = None
            run.probe("faulted_process")
        keys = []
        for ln, line in enumerate(complete):
            try:
                data, out = parse_solution(line)
            except Exception as exc:  # noqa: BLE001
                run.check(False, ("C12",), "C12.line-unreadable",
                          f"{where}: line {ln} does not parse back: {type(exc).__name__}: "
                          f"{exc!s:.200}; line {line[:300]!r}")
                continue
            labelled = "syntenies" in data
            run.check(labelled == (mode is not None), ("C12",), "C12.wrong-kind",
                      f"{where}: labelled={labelled} for {algo}")
            # names
            otree, stree = out.input.object_tree, out.input.species_lca.tree
            for tree, kind in ((otree, "object"), (stree, "species")):
                names = [n.name for n in tree.traverse()]
                run.check(all(names) and "NoName" not in names and len(set(names)) == len(names),
                          ("C12",), "C12.names-not-distinct",
                          lambda: f"{where}: line {ln}: {kind} tree node names {names} are not "
                                  f"distinct and non-empty; input document {doc}")
                idx = canon.ete_clade_index(tree)
                got = {c: n.name for n, c in idx.items() if not n.is_leaf()}
                given = onames if kind == "object" else snames
                run.check(all(got.get(c) == nm for c, nm in given.items()), ("C12",),
                          "C12.existing-name-changed",
                          lambda: f"{where}: line {ln}: {kind} names {got}, the input had {given}")
                # unnamed ancestors: <prefix># with indices increasing in pre-order
                prefix = "O" if kind == "object" else "S"
                auto = [n.name for n in tree.traverse("preorder")
                        if not n.is_leaf() and idx[n] not in given]
                nums = [int(a[1:]) if re.fullmatch(prefix + r"\d+", a) else None for a in auto]
                # (nodes created by resolving a polytomy are not ancestors of the input: for
                # multifurcating inputs only the O#/S# pattern is demanded of them)
                run.check(all(x is not None for x in nums)
                          and (not binary or all(a < b for a, b in zip(nums, nums[1:]))),
                          ("C12",),
                          "C12.automatic-names",
                          lambda: f"{where}: line {ln}: unnamed {kind} ancestors were named "
                                  f"{auto} (pre-order); expected {prefix}# with increasing "
                                  f"indices; input names {given}")
                if auto:
                    run.probe("automatic_names_checked")
            # the problem written back is the problem that was asked (cost options included)
            written = {k.name: float(v) for k, v in out.input.costs.items()}
            asked = {"SPECIATION": costs["spe"], "DUPLICATION": costs["dup"],
                     "HORIZONTAL_TRANSFER": costs["hgt"], "FULL_LOSS": costs["floss"],
                     "SEGMENTAL_LOSS": costs["sloss"]}
            run.check(written == {k: float(v) for k, v in asked.items()}, ("C12",),
                      "C12.costs-not-as-requested",
                      lambda: f"{where}: line {ln} carries unit costs {written}, the command line "
                              f"asked for {asked}")
            # cost
            on, sn = canon.ete_to_nested(otree), canon.ete_to_nested(stree)
            if ref.is_binary(on) and ref.is_binary(sn):
                rin = canon.RefInput(on, sn, leaf_species, costs,
                                     {k: list(v) for k, v in doc["leaf_syntenies"].items()}
                                     if labelled_input else None)
                problem, recount = rin.check(out, mode)
                run.check(problem is None, ("C12",), "C12.invalid-solution",
                          lambda: f"{where}: line {ln} is not a valid solution: {problem}")
                got_cost = out.cost()
                if printed is not None and problem is None:
                    run.check(str(got_cost) == printed and str(recount) == printed, ("C12",),
                              "C12.printed-cost",
                              lambda: f"{where}: printed minimum cost {printed}, line {ln} "
                                      f"evaluates to {got_cost}, independent recount {recount}; "
                                      f"costs {costs}")
            keys.append(solution_key(out, labelled))
        results[policy] = (keys, faulted, complete)
        if policy == "any" and not faulted:
            run.check(len(keys) == 1 or algo == "lca", ("C12",), "C12.any-count",
                      f"{where}: wrote {len(keys)} lines")
        run.event(policy, proc.status, len(complete), printed, sorted(fired),
                  hashlib.sha256(text.encode()).hexdigest(),
                  hashlib.sha256(proc.stderr.encode()).hexdigest())
    (all_keys, all_faulted, all_lines) = results["all"]
    (any_keys, any_faulted, _) = results["any"]
    if not all_faulted and not any_faulted:
        run.check(set(any_keys) <= set(all_keys), ("C12",), "C12.all-not-superset-of-any",
                  lambda: f"--solutions all ({len(all_keys)} lines, order {case['orders'][0]}) "
                          f"does not contain the --solutions any line (order "
                          f"{case['orders'][1]}); input document {doc}")
        if len(all_keys) > 1:
            run.probe("several_solutions")
    elif all_faulted != any_faulted:
        # prefix consistency: complete lines written before a fault are real solutions
        faulted_keys = all_keys if all_faulted else any_keys
        clean = set(any_keys if all_faulted else all_keys)
        if all_faulted:
            ok = True  # ANY is one member; lines of a truncated ALL cannot be compared to it
        else:
            ok = set(faulted_keys) <= clean
        run.check(ok, ("C12",), "C12.partial-output-not-a-solution",
                  "a complete line written before the fault is not in the fault-free ALL set")
        run.probe("prefix_checked")

    # ---- draw accepts every written object ------------------------------------------
    if case["draw"] != "none" and not all_faulted:
        for ln, line in enumerate(all_lines[:2]):
            fs.put("one.json", line + "\n")
            argv = ["draw"]
            if case["draw_orient"]:
                argv += ["--orientation", case["draw_orient"]]
            if case["draw"] == "file":
                argv += ["--input", "one.json", "--output", "one.tex"]
                proc = run_process(fs, argv, "", case["orders"][2], 0)
                produced = fs.text("one.tex")
            elif case["draw"] == "pdf":
                argv += ["--input", "one.json", "--output", "one.pdf"]
                proc = run_process(fs, argv, "", case["orders"][2], 0)
                produced = fs.text("one.pdf")
            else:
                argv += ["tikz"]
                proc = run_process(fs, argv, line + "\n", case["orders"][2], 0)
                produced = proc.stdout
            run.check(proc.status == 0 and produced, ("C12",), "C12.draw-rejects-output",
                      lambda: f"draw ({case['draw']}) of line {ln} written by reconcile {algo}: "
                              f"status {proc.status}, stderr {proc.stderr[-300:]!r}; line "
                              f"{line[:300]!r}")
            if case["draw"] != "pdf" and proc.status == 0 and parse_tikz(produced)["problems"]:
                run.probe("draw_output_malformed")  # C15's business, observed only here
            run.probe("draw_" + case["draw"])
            run.event("draw", ln, proc.status, hashlib.sha256(produced.encode()).hexdigest())

    # ---- documented error path ----------------------------------------------------------
    if case["error_path"] and not labelled_input:
        fs.raw_writes.pop("err.json", None)
        argv = ["reconcile", "--input", "in.json", "--output", "err.json",
                ["ext_spfs", "superdtl", "base_spfs", "base_uspfs"][case["orders"][3] % 4]]
        proc = run_process(fs, argv, "", case["orders"][3], 0)
        run.check(proc.status == 1 and fs.text("err.json") == ""
                  and not fs.raw_writes.get("err.json"), ("C12",), "C12.error-path",
                  lambda: f"super-reconciliation algorithm without syntenies: status "
                          f"{proc.status}, {len(fs.text('err.json'))} bytes written, stderr "
                          f"{proc.stderr[-200:]!r}")
        run.probe("error_path")
        run.nontrivial = True
        run.event("error", proc.status)
    if spec["named"] in (2, 3):
        run.probe("partially_named")
    if spec["named"] == 0:
        run.probe("unnamed_ancestors")
    if not case["explicit_map"]:
        run.probe("species_inferred_from_names")
    if case["stdin_input"]:
        run.probe("stdin_input")
    if not binary:
        run.probe("polytomy_input")
    run.nontrivial = True
    return run


def describe(pid):
    return {
        "rule": "Hypothesis-drawn case = documented-format input document (binary or, for the "
                "extended solvers, multifurcating; ancestors unnamed / all named / partially "
                "named with O#,S#-looking names / partially named; leaf species explicit or "
                "inferred from <species>_<id>, optionally lower-cased prefix; optional "
                "syntenies) + algorithm + cost options (small integers, or scaled to seven-digit "
                "values) + a pipeline of simulated processes on "
                "one simulated file system: reconcile --solutions all and --solutions any as "
                "separate processes with different set-iteration seeds (input by file or stdin, "
                "output to a file or to stdout), optionally after an earlier invocation with "
                "other cost options in the same interpreter, "
                "draw on the first written lines (file / stdout+tikz / pdf through the simulated "
                "TeX peer), the error path, optional short raw reads/writes and one errno fault "
                "(ENOSPC / EPIPE on the output, EIO on the input, or the process killed at a drawn "
                "byte of its output: buffers lost, possibly a torn last line) in one of the "
                "processes. "
                "After the search 8 (24) sampled cases are run again as REAL child processes of the "
                "uninstrumented package (real files, stdout, exit status, two real hash seeds "
                "each) and compared with the simulated processes. "
                "distinct = distinct case digest; every run drives several processes and is "
                "counted non-trivial when at least one oracle comparison ran.",
        "real": ["superrec2.cli (argparse wiring, read_input, call_algorithm, dump_results, draw "
                 "output selection), every solver, model (from_dict/to_dict, label_internal), "
                 "render, utils.tex; json; argparse; the io.TextIOWrapper/BufferedWriter/"
                 "BufferedReader stack; tqdm on the simulated clock"],
        "stub": ["file system below open() (SimRaw), process stdin/stdout/stderr and exit "
                 "(emulated flush/close of what argparse opened), TeX engine child process, "
                 "iteration order of sets, wall clock"],
        "assumptions": [
            "cost options outside the coherent region are replaced by the defaults",
            "under an injected errno fault nothing is asserted about the exit status; only that "
            "complete lines already written are solutions of the fault-free ALL set",
            "the stdout draw path is used with an explicit 'tikz' type",
        ],
        "probes_expected": ["order_permuted", "several_solutions", "error_path", "short_io",
                            "F3_ENOSPC", "F3_EPIPE", "F3_EIO", "F3_CRASH", "F5_clock_jump", "draw_file",
                            "draw_stdout", "draw_pdf", "partially_named", "unnamed_ancestors",
                            "species_inferred_from_names", "stdin_input", "polytomy_input",
                            "prefix_checked", "reconcile_to_stdout", "large_costs", "non_ascii_name", "real_process",
                            "non_utf8_locale",
                            "prior_invocation_other_costs"],
    }
