"""Simulation kernel: order oracle, SimSet, source loader (seam S1), event log, clock (S5).

Everything a run decides comes from the *case* (a JSON-able dict).  The kernel only
offers deterministic machinery: it never reads a wall clock, never draws from a global
PRNG and never depends on hash order.
"""
import ast
import hashlib
import importlib.abc
import importlib.util
import json
import os
import random
import sys

GUARD = "UDEM_LBIT_SUPERREC2_VERIF"
SRC = os.environ.get("VERIF_REPO_SRC", "/repo/src")
# Configuration dimension "interpreter run with -O": the package is compiled at this optimisation
# level (1 strips assert statements, as `python -O` does).  Decided by VERIF_SEED in run_check.py
# (one seed in five), or by VERIF_PYOPT, or by the replay file.
PYOPT = int(os.environ.get("VERIF_PYOPT") or 0)


# --------------------------------------------------------------------------------------
# Order oracle (D3): every iteration over a library-built set asks here.
# --------------------------------------------------------------------------------------
class Oracle:
    """Decides the iteration order of every SimSet.

    policy 0: insertion order, 1: reversed insertion order, n >= 2: shuffle seeded by n.
    The order of one set object is stable while the set is not mutated and the epoch
    (one epoch = one simulated operation) does not change, like a real set's.
    """

    def __init__(self):
        self.epoch = 0
        self.seed = 0
        self.consults = 0
        self.permuted = 0
        self.total_consults = 0
        self.total_permuted = 0

    def begin(self, order):
        """Start a new operation with the given order seed."""
        self.epoch += 1
        self.seed = int(order)
        self.consults = 0
        self.permuted = 0

    def order(self, keys):
        self.consults += 1
        self.total_consults += 1
        n = len(keys)
        if n < 2 or self.seed == 0:
            return keys
        if self.seed == 1:
            res = keys[::-1]
        else:
            res = list(keys)
            random.Random(self.seed * 1000003 + self.consults).shuffle(res)
        for a, b in zip(res, keys):
            if a is not b:
                self.permuted += 1
                self.total_permuted += 1
                break
        return res

    def pick(self, n):
        """Index of the element an arbitrary-element pop() returns."""
        self.consults += 1
        self.total_consults += 1
        if n < 2 or self.seed == 0:
            return n - 1
        if self.seed == 1:
            return 0
        idx = random.Random(self.seed * 1000003 + self.consults).randrange(n)
        if idx != n - 1:
            self.permuted += 1
            self.total_permuted += 1
        return idx


ORACLE = Oracle()


class SimDrift(Exception):
    """The SimSet order dict drifted from the underlying set: a harness error."""


class SimSet(set):
    """A set whose iteration order is a simulator decision.

    It *is* a set (isinstance checks, C-level membership and comparisons use the real hash
    table); a parallel dict keeps insertion order.  Every mutating and set-producing
    method is overridden so the two can never drift apart; __iter__ checks that.
    """

    __slots__ = ("_ord", "_cache")

    def __init__(self, it=()):
        set.__init__(self)
        self._ord = {}
        self._cache = None
        for x in it:
            self.add(x)

    # -- mutation --------------------------------------------------------------------
    def add(self, x):
        if x not in self._ord:
            self._ord[x] = None
            set.add(self, x)
            self._cache = None

    def discard(self, x):
        if x in self._ord:
            del self._ord[x]
            set.discard(self, x)
            self._cache = None

    def remove(self, x):
        if x not in self._ord:
            raise KeyError(x)
        self.discard(x)

    def pop(self):
        if not self._ord:
            raise KeyError("pop from an empty set")
        keys = list(self._ord)
        x = keys[ORACLE.pick(len(keys))]
        self.discard(x)
        return x

    def clear(self):
        self._ord.clear()
        set.clear(self)
        self._cache = None

    def update(self, *others):
        for o in others:
            for x in o:
                self.add(x)

    def difference_update(self, *others):
        for o in others:
            for x in list(o):
                self.discard(x)

    def intersection_update(self, *others):
        for o in others:
            keep = set(o)
            for x in [k for k in self._ord if k not in keep]:
                self.discard(x)

    def symmetric_difference_update(self, other):
        for x in list(SimSet(other)._ord):
            if x in self._ord:
                self.discard(x)
            else:
                self.add(x)

    def __ior__(self, o):
        self.update(o)
        return self

    def __isub__(self, o):
        self.difference_update(o)
        return self

    def __iand__(self, o):
        self.intersection_update(o)
        return self

    def __ixor__(self, o):
        self.symmetric_difference_update(o)
        return self

    # -- set-producing ---------------------------------------------------------------
    def copy(self):
        return SimSet(self._ord)

    __copy__ = copy

    def union(self, *o):
        r = SimSet(self._ord)
        r.update(*o)
        return r

    def difference(self, *o):
        r = SimSet(self._ord)
        r.difference_update(*o)
        return r

    def intersection(self, *o):
        r = SimSet(self._ord)
        r.intersection_update(*o)
        return r

    def symmetric_difference(self, o):
        r = SimSet(self._ord)
        r.symmetric_difference_update(o)
        return r

    def _binop(name):  # noqa: N805
        def op(self, o):
            if not isinstance(o, (set, frozenset)):
                return NotImplemented
            return getattr(self, name)(o)

        return op

    __or__ = _binop("union")
    __sub__ = _binop("difference")
    __and__ = _binop("intersection")
    __xor__ = _binop("symmetric_difference")
    __ror__ = __or__
    __rand__ = __and__
    __rxor__ = __xor__

    def __rsub__(self, o):
        if not isinstance(o, (set, frozenset)):
            return NotImplemented
        return SimSet(o).difference(self)

    del _binop

    # -- observation -----------------------------------------------------------------
    def _order(self):
        if len(self._ord) != set.__len__(self):
            raise SimDrift("SimSet order dict drifted from the underlying set")
        c = self._cache
        if c is None or c[0] != ORACLE.epoch:
            c = self._cache = (ORACLE.epoch, ORACLE.order(list(self._ord)))
        return c[1]

    def __iter__(self):
        order = self._order()
        n = len(order)
        for x in order:
            if set.__len__(self) != n:
                raise RuntimeError("Set changed size during iteration")
            yield x

    def __reduce__(self):
        return (SimSet, (list(self._ord),))

    def __repr__(self):
        return "SimSet(%r)" % (list(self._ord),)


# --------------------------------------------------------------------------------------
# Seam S1: compile superrec2 from the working tree with set construction routed to SimSet
# --------------------------------------------------------------------------------------
class _Rewriter(ast.NodeTransformer):
    def __init__(self):
        self.sites = 0

    def _sim(self, node):
        return ast.copy_location(ast.Name("__sim_set__", ast.Load()), node)

    def visit_Set(self, node):
        self.generic_visit(node)
        self.sites += 1
        return ast.copy_location(
            ast.Call(self._sim(node), [ast.List(node.elts, ast.Load())], []), node
        )

    def visit_SetComp(self, node):
        self.generic_visit(node)
        self.sites += 1
        return ast.copy_location(
            ast.Call(self._sim(node), [ast.GeneratorExp(node.elt, node.generators)], []),
            node,
        )

    def visit_Call(self, node):
        if (
            isinstance(node.func, ast.Name)
            and node.func.id in ("isinstance", "issubclass")
            and len(node.args) == 2
        ):
            # keep the class argument untouched: SimSet is a subclass of set
            node.args[0] = self.visit(node.args[0])
            return node
        self.generic_visit(node)
        return node

    def visit_Name(self, node):
        if node.id == "set" and isinstance(node.ctx, ast.Load):
            self.sites += 1
            return self._sim(node)
        return node

    # annotations are never evaluated for their set-ness; leave them alone
    def visit_AnnAssign(self, node):
        if node.value is not None:
            node.value = self.visit(node.value)
        node.target = self.visit(node.target)
        return node

    def visit_arg(self, node):
        return node

    def visit_FunctionDef(self, node):
        node.body = [self.visit(b) for b in node.body]
        node.decorator_list = [self.visit(d) for d in node.decorator_list]
        node.args.defaults = [self.visit(d) for d in node.args.defaults]
        node.args.kw_defaults = [
            self.visit(d) if d is not None else None for d in node.args.kw_defaults
        ]
        return node

    visit_AsyncFunctionDef = visit_FunctionDef


REWRITES = {}
SOURCE_DIGEST = hashlib.sha256()


class _Loader(importlib.abc.SourceLoader):
    def __init__(self, fullname, path):
        self.fullname, self.path = fullname, path

    def get_filename(self, fullname):
        return self.path

    def get_data(self, path):
        with open(path, "rb") as handle:
            return handle.read()

    def source_to_code(self, data, path, *, _optimize=-1):
        tree = ast.parse(data, path)
        rewriter = _Rewriter()
        tree = rewriter.visit(tree)
        ast.fix_missing_locations(tree)
        REWRITES[os.path.relpath(path, SRC)] = rewriter.sites
        SOURCE_DIGEST.update(path.encode() + b"\0" + data)
        return compile(tree, path, "exec", dont_inherit=True,
                       optimize=PYOPT if PYOPT else _optimize)

    def exec_module(self, module):
        module.__dict__["__sim_set__"] = SimSet
        super().exec_module(module)


class _Finder(importlib.abc.MetaPathFinder):
    def find_spec(self, fullname, path, target=None):
        if fullname != "superrec2" and not fullname.startswith("superrec2."):
            return None
        rel = fullname.replace(".", "/")
        for cand, pkg in (
            (os.path.join(SRC, rel, "__init__.py"), True),
            (os.path.join(SRC, rel + ".py"), False),
        ):
            if os.path.exists(cand):
                return importlib.util.spec_from_file_location(
                    fullname,
                    cand,
                    loader=_Loader(fullname, cand),
                    submodule_search_locations=[os.path.dirname(cand)] if pkg else None,
                )
        return None


_INSTALLED = False


def install():
    """Install seam S1 (and the tqdm clock / monitor seam S5).  Idempotent."""
    global _INSTALLED
    if _INSTALLED:
        return
    os.environ[GUARD] = "1"
    sys.dont_write_bytecode = True
    for name in [m for m in sys.modules if m == "superrec2" or m.startswith("superrec2.")]:
        del sys.modules[name]
    sys.meta_path.insert(0, _Finder())
    import tqdm
    import tqdm.std

    import threading

    tqdm.tqdm.monitor_interval = 0
    tqdm.std.tqdm.monitor_interval = 0
    tqdm.std.time = CLOCK.time
    # tqdm's default write lock contains a multiprocessing.RLock created at first use; if that
    # happens before the workers are forked, all of them serialise on it for every refresh
    tqdm.std.tqdm.set_lock(threading.RLock())
    _INSTALLED = True


# --------------------------------------------------------------------------------------
# Seam S5: simulated clock
# --------------------------------------------------------------------------------------
class SimClock:
    def __init__(self):
        self.begin(0)
        self.total = 0.0

    def begin(self, seed):
        self.now = 1_000_000.0
        self.start = self.now
        self.seed = int(seed)
        self.reads = 0
        self.jumps = 0

    def time(self):
        self.reads += 1
        if self.seed:
            rng = random.Random(self.seed * 7919 + self.reads)
            step = rng.random() * 2.0
            if rng.random() < 0.02:
                step += rng.choice((60.0, 3600.0, 86400.0))
                self.jumps += 1
        else:
            step = 0.001
        self.now += step
        self.total += step
        return self.now


CLOCK = SimClock()


# --------------------------------------------------------------------------------------
# Event log
# --------------------------------------------------------------------------------------
class Violation(Exception):
    """A property oracle failed on real code."""

    def __init__(self, props, label, message):
        super().__init__(f"{label}: {message}")
        self.props = tuple(props)
        self.label = label
        self.message = message


class HarnessError(Exception):
    """Something is wrong in /verif code or the model: never a violation, never exit 0."""


RUN_LIMIT_S = float(os.environ.get("VERIF_RUN_LIMIT_S", "90"))


class RunDoesNotReturn(BaseException):
    """Raised by the per-run alarm inside whatever code is executing."""


def guarded_execute(engine, case, pid):
    """engine.execute, with an exception that escapes from the code under test (and that the
    engine did not expect, as it does under injected faults) turned into a violation: every
    claimed property is about an operation that returns.  An exception raised by /verif code
    stays what it is (a harness error).  Decided on the innermost traceback frame that belongs
    to either side; frames of third-party libraries in between are skipped."""
    import signal
    import traceback

    # A simulated run takes milliseconds (the slowest brute-force oracle a few seconds).  One
    # that is still going after RUN_LIMIT_S of wall time does not return: reported as a violation
    # of the property in focus (every claimed property is about an operation that returns)
    # instead of waiting for the batch watchdog, which can only kill the worker (exit 2).  The
    # limit is a watchdog, not part of the simulated semantics: no decision of a run that
    # finishes depends on it.
    def _expired(signum, frame):
        raise RunDoesNotReturn()

    armed = False
    if RUN_LIMIT_S > 0 and hasattr(signal, "setitimer"):
        try:
            previous = signal.signal(signal.SIGALRM, _expired)
            signal.setitimer(signal.ITIMER_REAL, RUN_LIMIT_S)
            armed = True
        except ValueError:  # not in the main thread: no per-run limit
            armed = False
    try:
        return engine.execute(case, focus=pid)
    except RunDoesNotReturn:
        raise Violation((pid,), f"{pid}.does-not-return",
                        f"the simulated run was still executing after {RUN_LIMIT_S:.0f} s of "
                        f"wall time (a normal run takes milliseconds): an operation of the "
                        f"package does not return on this well-formed input") from None
    except (Violation, HarnessError, SimDrift, MemoryError):
        raise
    except Exception as exc:  # noqa: BLE001
        here = os.path.dirname(os.path.abspath(__file__))
        src = os.path.abspath(SRC)
        for frame in reversed(traceback.extract_tb(exc.__traceback__)):
            fname = os.path.abspath(frame.filename)
            if fname.startswith(here + os.sep):
                raise
            if fname.startswith(src + os.sep):
                where = f"{os.path.relpath(fname, src)}:{frame.lineno} in {frame.name}"
                raise Violation((pid,), f"{pid}.package-raised",
                                f"{type(exc).__name__}: {str(exc)[:300]} raised at {where} on a "
                                f"well-formed input") from None
        raise
    finally:
        if armed:
            signal.setitimer(signal.ITIMER_REAL, 0)
            signal.signal(signal.SIGALRM, previous)


class Run:
    """State of one simulated run: event log, probes, oracle bookkeeping."""

    def __init__(self, focus=None):
        self.focus = focus
        self.log = []
        self.probes = {}
        self.faults = {}
        self.checks = 0
        self.nontrivial = False

    def event(self, *fields):
        self.log.append(fields)

    def probe(self, name, n=1):
        if n:
            self.probes[name] = self.probes.get(name, 0) + n

    def fault(self, name, n=1):
        if n:
            self.faults[name] = self.faults.get(name, 0) + n
            self.nontrivial = True

    def wants(self, *props):
        return self.focus is None or self.focus in props

    def check(self, cond, props, label, message):
        """Oracle comparison.  `message` may be a callable (evaluated on failure only)."""
        if self.focus is not None and self.focus not in props:
            return
        self.checks += 1
        if not cond:
            if callable(message):
                message = message()
            raise Violation(props, label, str(message)[:2000])

    def digest(self):
        return hashlib.sha256(repr(self.log).encode()).hexdigest()


def case_digest(case):
    return hashlib.sha256(json.dumps(case, sort_keys=True).encode()).hexdigest()[:24]


def derive_seed(*parts):
    h = hashlib.sha256("/".join(str(p) for p in parts).encode()).digest()
    return int.from_bytes(h[:8], "big")
