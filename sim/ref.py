"""Reference models (oracles).  Plain Python data, written from the property statements and
the README; shares no code with the package: ancestry by walking parent chains, subsequence
checks on tuples, no bitmasks, no sparse tables, no DP tables.

Trees are nested lists: a leaf is a string, an internal node a list of children.  Nodes are
identified by their *clade* (sorted tuple of leaf names below) - never by internal names.
"""
import itertools

INF = float("inf")


class N:
    __slots__ = ("name", "children", "parent", "depth", "clade")

    def __init__(self, name, children=()):
        self.name = name
        self.children = list(children)
        self.parent = None
        self.depth = 0
        self.clade = None
        for c in self.children:
            c.parent = self

    def nodes(self):
        yield self
        for c in self.children:
            yield from c.nodes()

    def leaves(self):
        return [n for n in self.nodes() if not n.children]

    def __repr__(self):
        return "N(%s)" % ",".join(self.clade)


def build(nested):
    """nested list -> N tree with depth and clade set on every node."""

    def go(x):
        if isinstance(x, str):
            return N(x)
        return N(None, [go(c) for c in x])

    root = go(nested)
    finish(root)
    return root


def finish(root):
    for n in root.nodes():
        n.depth = 0 if n.parent is None else n.parent.depth + 1

    def cl(n):
        if not n.children:
            n.clade = (n.name,)
        else:
            n.clade = tuple(sorted(x for c in n.children for x in cl(c)))
        return n.clade

    cl(root)
    return root


def anc(a, b):
    """a is an ancestor of b (or b itself)."""
    while b is not None:
        if b is a:
            return True
        b = b.parent
    return False


def lca(a, b):
    while not anc(a, b):
        a = a.parent
    return a


def is_binary(nested):
    if isinstance(nested, str):
        return True
    return len(nested) == 2 and all(is_binary(c) for c in nested)


# --------------------------------------------------------------------------------------
# R-events / R-cost
# --------------------------------------------------------------------------------------
def event(s, a, b):
    """Event of a node at species s whose children sit at a and b.
    -> ('S'|'D'|'T', index of the kept child or None), or None when invalid."""
    if (a is not s and anc(a, s)) or (b is not s and anc(b, s)):
        return None
    below_a, below_b = anc(s, a), anc(s, b)
    if below_a and below_b:
        if lca(a, b) is s and not anc(a, b) and not anc(b, a):
            return ("S", None)
        return ("D", None)
    if below_a:
        return ("T", 0)
    if below_b:
        return ("T", 1)
    return None


def rec_cost(otree, m, costs):
    """(cost, {node: event}) of the mapping m (object node -> species node); (INF, None) if
    invalid.  One full loss per species edge skipped on a vertical branch."""
    total = 0
    ev = {}
    for v in otree.nodes():
        if not v.children:
            continue
        left, right = v.children
        s, a, b = m[v], m[left], m[right]
        e = event(s, a, b)
        if e is None:
            return INF, None
        ev[v] = e
        if e[0] == "S":
            total += costs["spe"] + costs["floss"] * (a.depth + b.depth - 2 * s.depth - 2)
        elif e[0] == "D":
            total += costs["dup"] + costs["floss"] * (a.depth + b.depth - 2 * s.depth)
        else:
            kept = (a, b)[e[1]]
            total += costs["hgt"] + costs["floss"] * (kept.depth - s.depth)
    return total, ev


def all_mappings(otree, stree, leafmap):
    """Every valid species mapping (dict node -> species node), each once."""
    snodes = list(stree.nodes())

    def go(v):
        if not v.children:
            yield {v: leafmap[v]}
            return
        left, right = v.children
        rights = list(go(right))
        for ml in go(left):
            for mr in rights:
                for s in snodes:
                    if event(s, ml[left], mr[right]) is not None:
                        d = {v: s}
                        d.update(ml)
                        d.update(mr)
                        yield d

    return go(otree)


def lca_mapping(otree, leafmap):
    m = {}

    def go(v):
        if not v.children:
            m[v] = leafmap[v]
        else:
            for c in v.children:
                go(c)
            m[v] = lca(m[v.children[0]], m[v.children[1]])

    go(otree)
    return m


# --------------------------------------------------------------------------------------
# labellings
# --------------------------------------------------------------------------------------
def runs(child, parent, ends):
    """Number of maximal runs of `parent` (tuple, in order) elements missing from `child`
    (a set); runs touching an end are free when `ends` is False."""
    flags = [x in child for x in parent]
    n = len(flags)
    segs = []
    i = 0
    while i < n:
        if not flags[i]:
            j = i
            while j < n and not flags[j]:
                j += 1
            segs.append((i, j))
            i = j
        else:
            i += 1
    if not ends:
        segs = [s for s in segs if s[0] != 0 and s[1] != n]
    return len(segs)


def is_subsequence(child, parent):
    it = iter(parent)
    return all(any(x == y for y in it) for x in child)


def ordered_node_cost(e, Sv, Sl, Sr, order, sloss):
    pv = tuple(x for x in order if x in Sv)
    if e[0] == "S":
        return sloss * (runs(Sl, pv, True) + runs(Sr, pv, True))
    if e[0] == "D":
        return sloss * min(runs(Sl, pv, True) + runs(Sr, pv, False),
                           runs(Sl, pv, False) + runs(Sr, pv, True))
    if e[1] == 0:
        return sloss * (runs(Sl, pv, True) + runs(Sr, pv, False))
    return sloss * (runs(Sl, pv, False) + runs(Sr, pv, True))


def unordered_node_cost(e, Sv, Sl, Sr, sloss):
    cl = 0 if Sv <= Sl else sloss
    cr = 0 if Sv <= Sr else sloss
    if e[0] == "S":
        return cl + cr
    if e[0] == "D":
        return min(cl, cr)
    return cl if e[1] == 0 else cr


def subsets_between(lo, hi):
    extra = sorted(hi - lo)
    for k in range(len(extra) + 1):
        for c in itertools.combinations(extra, k):
            yield lo | frozenset(c)


def compute_gains(otree, leafsets):
    """Family f is gained at the LCA of the leaves that carry it."""
    fams = frozenset().union(*leafsets.values())
    gains = {v: set() for v in otree.nodes()}
    for f in fams:
        carriers = [leaf for leaf in otree.leaves() if f in leafsets[leaf]]
        g = carriers[0]
        for c in carriers[1:]:
            g = lca(g, c)
        gains[g].add(f)
    return {v: frozenset(s) for v, s in gains.items()}


def compute_need(otree, leafsets, mode, gains):
    need = {}

    def go(v):
        if not v.children:
            need[v] = leafsets[v]
        else:
            for c in v.children:
                go(c)
            if mode == "ordered":
                need[v] = frozenset().union(*(need[c] for c in v.children))
            else:
                need[v] = frozenset().union(*(need[c] - gains[c] for c in v.children))

    go(otree)
    return need


def best_labellings(otree, ev, leafsets, mode, order, sloss, gains=None, canonical=False):
    """(min labelling cost, list of optimal labellings {node: frozenset}) for a fixed event
    assignment.  canonical=True restricts unordered labellings to: each node holds either its
    required families or its parent's families plus its own gains."""
    need = compute_need(otree, leafsets, mode, gains)
    memo = {}

    def choices(c, Sv):
        if mode == "ordered":
            if not need[c] <= Sv:
                return []
            return [need[c]] if not c.children else list(subsets_between(need[c], Sv))
        hi = Sv | gains[c]
        if not need[c] <= hi:
            return []
        if not c.children:
            return [need[c]]
        if canonical:
            return [need[c]] if hi == need[c] else [need[c], hi]
        return list(subsets_between(need[c], hi))

    def solve(v, Sv):
        key = (v, Sv)
        if key in memo:
            return memo[key]
        if not v.children:
            memo[key] = (0, [{v: Sv}])
            return memo[key]
        left, right = v.children
        best = INF
        sols = []
        for Sl in choices(left, Sv):
            cl, sl_ = solve(left, Sl)
            if cl == INF:
                continue
            for Sr in choices(right, Sv):
                cr, sr_ = solve(right, Sr)
                if cr == INF:
                    continue
                if mode == "ordered":
                    nc = ordered_node_cost(ev[v], Sv, Sl, Sr, order, sloss)
                else:
                    nc = unordered_node_cost(ev[v], Sv, Sl, Sr, sloss)
                c = nc + cl + cr
                if c < best:
                    best = c
                    sols = []
                if c == best:
                    for a in sl_:
                        for b in sr_:
                            d = {v: Sv}
                            d.update(a)
                            d.update(b)
                            sols.append(d)
        memo[key] = (best, sols)
        return memo[key]

    root_set = frozenset(order) if mode == "ordered" else need[otree]
    if mode == "ordered" and not need[otree] <= root_set:
        return INF, []
    return solve(otree, root_set)


def root_orders(leafseqs, fams):
    """Every order of the families of which each leaf sequence is a subsequence."""
    res = []
    for p in itertools.permutations(sorted(fams)):
        pos = {x: i for i, x in enumerate(p)}
        if all(all(pos[a] < pos[b] for a, b in zip(s, s[1:])) for s in leafseqs):
            res.append(p)
    return res


# --------------------------------------------------------------------------------------
# R-opt
# --------------------------------------------------------------------------------------
def mapping_key(m):
    return tuple(sorted((v.clade, s.clade) for v, s in m.items()))


def labelling_key(lab, order=None):
    if order is not None:
        return tuple(sorted((v.clade, tuple(x for x in order if x in S)) for v, S in lab.items()))
    return tuple(sorted((v.clade, tuple(sorted(S))) for v, S in lab.items()))


def opt(otree, stree, leafmap, costs, mode=None, leafseqs=None, restrict=None,
        root_order=None, canonical=False, budget=None):
    """Brute-force optimum.  Returns dict(min=..., sols=set of solution keys,
    n_valid=number of valid mappings, transfer=bool some optimum uses a transfer).
    mode None | 'ordered' | 'unordered'.  restrict: mapping to which solutions are confined.
    budget: max number of (mapping) iterations, None = unlimited; over budget -> None."""
    best = INF
    sols = set()
    n_valid = 0
    gains = None
    if mode == "ordered":
        fams = set().union(*map(set, leafseqs.values()))
        if root_order is not None:
            orders = [tuple(root_order)] if all(
                is_subsequence(s, root_order) for s in leafseqs.values()) else []
        else:
            orders = root_orders(list(leafseqs.values()), fams)
        leafsets = {leaf: frozenset(s) for leaf, s in leafseqs.items()}
    elif mode == "unordered":
        leafsets = {leaf: frozenset(s) for leaf, s in leafseqs.items()}
        gains = compute_gains(otree, leafsets)
    sigmemo = {}
    steps = 0
    for m in all_mappings(otree, stree, leafmap):
        steps += 1
        if budget is not None and steps > budget:
            return None
        if restrict is not None and any(m[v] is not restrict[v] for v in m):
            continue
        rc, ev = rec_cost(otree, m, costs)
        if rc == INF:
            continue
        n_valid += 1
        if rc > best:
            continue
        mkey = mapping_key(m)
        if mode is None:
            if rc < best:
                best = rc
                sols = set()
            sols.add(mkey)
            continue
        sig = tuple(sorted((v.clade, e) for v, e in ev.items()))
        if sig not in sigmemo:
            if mode == "ordered":
                sigmemo[sig] = [
                    (o,) + best_labellings(otree, ev, leafsets, "ordered", o, costs["sloss"])
                    for o in orders
                ]
            else:
                sigmemo[sig] = [
                    (None,) + best_labellings(otree, ev, leafsets, "unordered", None,
                                              costs["sloss"], gains, canonical)
                ]
        for o, lc, labs in sigmemo[sig]:
            c = rc + lc
            if c < best:
                best = c
                sols = set()
            if c == best and c < INF:
                for lab in labs:
                    sols.add((mkey, labelling_key(lab, o)))
    return {"min": best, "sols": sols, "n_valid": n_valid}


# --------------------------------------------------------------------------------------
# validity predicates on a concrete solution (C04), independent of optimality
# --------------------------------------------------------------------------------------
def check_solution(otree, stree, leafmap, m, costs, mode=None, leafseqs=None, lab=None,
                   root_order=None):
    """Returns (problem string or None, cost or None) for a complete candidate solution.
    m: {object node: species node}; lab: {object node: tuple of families} (labelled modes)."""
    for v in otree.nodes():
        if v not in m:
            return f"node {v.clade} is not mapped", None
    for leaf in otree.leaves():
        if m[leaf] is not leafmap[leaf]:
            return f"leaf {leaf.name} moved to {m[leaf].clade}", None
    rc, ev = rec_cost(otree, m, costs)
    if rc == INF:
        return "invalid event", None
    if mode is None:
        return None, rc
    total = rc
    for v in otree.nodes():
        if v not in lab:
            return f"node {v.clade} has no synteny", None
        if len(set(lab[v])) != len(lab[v]):
            return f"node {v.clade} repeats a family: {lab[v]}", None
    for leaf in otree.leaves():
        want = tuple(leafseqs[leaf])
        got = tuple(lab[leaf])
        if (got != want) if mode == "ordered" else (sorted(got) != sorted(want)):
            return f"leaf {leaf.name} synteny {got} differs from the input {want}", None
    if mode == "ordered":
        fams = set().union(*map(set, leafseqs.values()))
        root = tuple(lab[otree])
        if root_order is not None:
            if root != tuple(root_order):
                return f"root synteny {root} is not the prescribed {tuple(root_order)}", None
        elif set(root) != fams:
            return f"root synteny {root} does not hold every family {sorted(fams)} once", None
        for v in otree.nodes():
            for c in v.children:
                if not is_subsequence(lab[c], lab[v]):
                    return (f"child {c.clade} synteny {lab[c]} is not a subsequence of its "
                            f"parent's {lab[v]}"), None
        for v in otree.nodes():
            if v.children:
                left, right = v.children
                total += ordered_node_cost(ev[v], frozenset(lab[v]), frozenset(lab[left]),
                                           frozenset(lab[right]), root, costs["sloss"])
    else:
        leafsets = {leaf: frozenset(s) for leaf, s in leafseqs.items()}
        gains = compute_gains(otree, leafsets)
        gain_node = {f: v for v, fs in gains.items() for f in fs}
        for v in otree.nodes():
            for f in lab[v]:
                g = gain_node.get(f)
                if g is None:
                    return f"family {f} at {v.clade} is carried by no leaf", None
                if not anc(g, v):
                    return (f"family {f} occurs at {v.clade}, outside the subtree of its gain "
                            f"node {g.clade}"), None
                if v is not g and f not in lab[v.parent]:
                    return (f"family {f} occurs at {v.clade} below its gain node although the "
                            f"parent lacks it"), None
        for v in otree.nodes():
            if v.children:
                left, right = v.children
                total += unordered_node_cost(ev[v], frozenset(lab[v]), frozenset(lab[left]),
                                             frozenset(lab[right]), costs["sloss"])
    return None, total


# --------------------------------------------------------------------------------------
# R-refine
# --------------------------------------------------------------------------------------
def refinements(nested):
    """All binary refinements of a nested-list tree, each exactly once."""
    if isinstance(nested, str):
        yield nested
        return
    for combo in itertools.product(*[list(refinements(c)) for c in nested]):
        yield from _arrange(list(combo))


def _arrange(items):
    if len(items) == 1:
        yield items[0]
        return
    for t in _arrange(items[1:]):
        yield from _graft(t, items[0], set(map(id, items[1:])))


def _graft(t, x, protected):
    yield [x, t]
    if not isinstance(t, str) and id(t) not in protected:
        a, b = t
        for a2 in _graft(a, x, protected):
            yield [a2, b]
        for b2 in _graft(b, x, protected):
            yield [a, b2]


def refinement_count(nested):
    if isinstance(nested, str):
        return 1
    k = len(nested)
    n = 1
    for i in range(3, 2 * k - 2, 2):  # (2k-3)!!
        n *= i
    for c in nested:
        n *= refinement_count(c)
    return n


def nested_clades(nested):
    out = set()

    def go(x):
        if isinstance(x, str):
            return (x,)
        c = tuple(sorted(y for k in x for y in go(k)))
        out.add(c)
        return c

    go(nested)
    return frozenset(out)


def nested_leaves(nested):
    return [nested] if isinstance(nested, str) else [x for c in nested for x in nested_leaves(c)]


def to_newick(nested, names=None, colors=None):
    """names: optional {clade: internal name}; colors: optional {clade: rrggbb} (NHX)."""

    def go(x):
        if isinstance(x, str):
            text, clade = x, (x,)
        else:
            parts = [go(c) for c in x]
            clade = tuple(sorted(y for _, cl in parts for y in cl))
            label = (names or {}).get(clade, "")
            text = "(" + ",".join(p for p, _ in parts) + ")" + label
        if colors and clade in colors:
            text += f"[&&NHX:color={colors[clade]}]"
        return text, clade

    return go(nested)[0] + ";"
