"""Determinism self-test of the simulator (`./check selftest`).

For every registered property, a few batch seeds are executed twice in fresh interpreters:
once in forward order under PYTHONHASHSEED=0 and once in reverse order under another hash
seed.  The sequence of generated cases and the SHA-256 digest of every run's event log must
be identical; any difference is a harness error (a forgotten source of nondeterminism would
break replay and shrinking).  Exit 0 = deterministic on the sample, 2 = not.
"""
import concurrent.futures as cf
import json
import os
import subprocess
import sys

from . import kernel
from .kernel import Violation, case_digest, derive_seed

VERIF = os.path.dirname(os.path.dirname(os.path.abspath(__file__)))


def worker(pid, tier, seeds, n):
    from hypothesis import HealthCheck, Phase, given, seed, settings

    from .props import PROPS

    kernel.install()
    engine = PROPS[pid]["engine"]
    engine.prepare()
    result = {}
    for bseed in seeds:
        rows = []
        result[str(bseed)] = rows

        def one(case):
            rows = result[str(bseed)]  # noqa: B023 - the test runs inside this iteration
            try:
                run = kernel.guarded_execute(engine, case, pid)
                rows.append([case_digest(case), run.digest(), run.checks])
            except Violation as v:
                rows.append([case_digest(case), "VIOLATION " + v.label, -1])

        test = given(engine.strategy(pid, tier))(one)
        test = settings(max_examples=n, database=None, deadline=None, derandomize=False,
                        suppress_health_check=list(HealthCheck), phases=(Phase.generate,),
                        print_blob=False)(test)
        seed(bseed)(test)()
    json.dump(result, sys.stdout)
    return 0


def main(base_seed, n=50, batches=4):
    from .props import PROPS

    jobs = []
    for pid in sorted(PROPS):
        seeds = [derive_seed(base_seed, "selftest", pid, i) % (2**63) for i in range(batches)]
        jobs.append((pid, seeds, "0", False))
        jobs.append((pid, seeds, str(1 + derive_seed(base_seed, "hs", pid) % 4000000), True))

    def launch(job):
        pid, seeds, hashseed, reverse = job
        order = list(reversed(seeds)) if reverse else seeds
        env = dict(os.environ, PYTHONHASHSEED=hashseed, VERIF_KEEP_HASHSEED="1")
        proc = subprocess.run(
            [sys.executable, os.path.join(VERIF, "run_check.py"), "selftest-worker", pid,
             ",".join(map(str, order)), str(n)],
            capture_output=True, text=True, env=env, timeout=1800)
        if proc.returncode != 0:
            return job, None, proc.stderr[-3000:]
        return job, json.loads(proc.stdout), None

    with cf.ThreadPoolExecutor(max_workers=16) as pool:
        done = list(pool.map(launch, jobs))
    by_pid = {}
    status = 0
    for (pid, seeds, hashseed, reverse), data, err in done:
        if data is None:
            print(f"selftest {pid}: worker failed under PYTHONHASHSEED={hashseed}: {err}")
            status = 2
            continue
        by_pid.setdefault(pid, []).append((hashseed, reverse, data))
    total = 0
    for pid, runs in sorted(by_pid.items()):
        if len(runs) != 2:
            status = 2
            continue
        (h1, _, a), (h2, _, b) = runs
        same = a == b
        n_runs = sum(len(v) for v in a.values())
        total += n_runs
        print(f"selftest {pid}: {n_runs} runs x 2 interpreters (PYTHONHASHSEED {h1} forward / "
              f"{h2} reversed batch order): {'identical' if same else 'DIFFERENT'}")
        if not same:
            status = 2
            for k in a:
                for i, (x, y) in enumerate(zip(a[k], b.get(k, []))):
                    if x != y:
                        print(f"  first difference: batch seed {k} example {i}: {x} vs {y}")
                        break
    # worker-count independence: the same check with 1 and with 16 workers must explore
    # exactly the same cases and make exactly the same decisions
    import shutil
    import tempfile

    for pid in ("C16", "C19", "C13"):
        cov = []
        for workers in ("1", "16"):
            scratch = tempfile.mkdtemp(prefix="selftest.")
            try:
                env = dict(os.environ, PYTHONHASHSEED="0", VERIF_WORKERS=workers,
                           VERIF_MAX_BATCHES="6", VERIF_SCRATCH_OUT=scratch,
                           VERIF_SEED=str(base_seed))
                proc = subprocess.run([sys.executable, os.path.join(VERIF, "run_check.py"), pid],
                                      capture_output=True, text=True, env=env, timeout=1800)
                with open(os.path.join(scratch, "evidence", f"{pid}.json")) as handle:
                    c = json.load(handle)["coverage"]
                cov.append({k: c[k] for k in ("evaluations", "distinct_nontrivial",
                                              "oracle_comparisons", "order_decisions",
                                              "order_decisions_permuted", "probes",
                                              "fault_kinds_fired")} | {"exit": proc.returncode})
            finally:
                shutil.rmtree(scratch, ignore_errors=True)
        same = cov[0] == cov[1]
        print(f"selftest {pid}: 1 worker vs 16 workers, 6 batches: "
              f"{'identical coverage' if same else 'DIFFERENT: %r vs %r' % (cov[0], cov[1])}")
        if not same:
            status = 2
    print(f"selftest: {total} runs compared, status {status}")
    return status
