"""Engine E2 (lazy-producer), utils level: `binarize(tree)`, `arrange_leaves`, `graft` stepped
lazily by a cooperative scheduler (seam S2).  Every yielded tree is snapshotted at yield
time and again at the end of the run (the producers build later results out of pieces of
earlier ones, so aliasing only shows to deferred inspection), and the multiset of yields is
compared with the independent refinement generator.  Serves C08 (enumerator part).
"""
from hypothesis import strategies as st

from . import canon, ref
from .kernel import ORACLE

COLORS = ["ff0000", "00aa00"]


class SimFault(Exception):
    pass


@st.composite
def enum_case(draw, tier):
    from .e1_solver import NAME, _shape, _size

    k = draw(_size(1, 6))
    leaves = [chr(97 + i) for i in range(k)]
    tree = draw(_shape(leaves, 5))
    n_internal = _count_internal(tree)
    feats = {}
    for i in range(n_internal):
        r = draw(st.integers(0, 5))
        if r == 0:
            feats[str(i)] = {"name": f"N{i}"}
        elif r == 1:
            feats[str(i)] = {"name": f"N{i}", "color": draw(st.sampled_from(COLORS))}
    tasks = draw(st.lists(st.sampled_from(["binarize", "arrange", "graft", "graft_ignore"]),
                          min_size=1, max_size=3))
    sched = draw(st.lists(
        st.tuples(st.integers(0, 2), st.sampled_from(["step", "step", "step", "close", "throw",
                                                      "drain"]),
                  st.integers(1, 5)).map(list), min_size=1, max_size=8))
    return {"engine": NAME, "kind": "enum", "tree": tree, "feats": feats, "tasks": tasks,
            "sched": sched, "order": draw(st.integers(0, 9)),
            "graft_pick": draw(st.integers(0, 10))}


def _count_internal(nested):
    if isinstance(nested, str):
        return 0
    return 1 + sum(_count_internal(c) for c in nested)


def _newick_with_feats(nested, feats):
    counter = [0]

    def go(x):
        if isinstance(x, str):
            return x
        i = counter[0]
        counter[0] += 1
        inner = ",".join(go(c) for c in x)
        f = feats.get(str(i), {})
        text = "(" + inner + ")" + f.get("name", "")
        if "color" in f:
            text += f"[&&NHX:color={f['color']}]"
        return text

    return go(nested) + ";"


def _snap(tree):
    """Canonical snapshot of an ete3 tree: shape with child order, names, colours, integrity."""
    def go(n):
        return (n.name, getattr(n, "color", None), tuple(go(c) for c in n.children))

    return (go(tree), canon.tree_integrity(tree))


def _clades(tree):
    return ref.nested_clades(canon.ete_to_nested(tree)) if not tree.is_leaf() else frozenset()


def _all_arrangements(items):
    """Independent: every binary tree over atomic items (nested lists / strings)."""
    if len(items) == 1:
        yield items[0]
        return
    for t in _all_arrangements(items[1:]):
        yield from _insert_atomic(t, items[0], set(map(id, items[1:])))


def _insert_atomic(t, x, atoms):
    yield [x, t]
    if not isinstance(t, str) and id(t) not in atoms:
        a, b = t
        for a2 in _insert_atomic(a, x, atoms):
            yield [a2, b]
        for b2 in _insert_atomic(b, x, atoms):
            yield [a, b2]


def execute_enum(run, case, m):
    """m: module table of e1_solver (needs 'trees')."""
    from ete3 import Tree

    trees = m["trees"]
    nested = case["tree"]
    ORACLE.begin(case["order"])
    src = Tree(_newick_with_feats(nested, case["feats"]), format=1)
    src_snap = _snap(src)
    props = ("C08",)
    producers = []
    for kind in case["tasks"]:
        if kind == "binarize":
            if isinstance(nested, str):
                continue
            expected = sorted(repr(ref.nested_clades(r)) for r in ref.refinements(nested))
            if len(expected) > 1000:
                run.probe("oracle_overcap")
                continue
            # eager list in the library: turn it into a producer so that it is consumed lazily
            # and inspected late like the others
            gen = iter(trees.binarize(src))
            run.check(len(expected) == ref.refinement_count(nested), props,
                      "C08.reference-count",
                      f"reference generator and (2k-3)!! formula disagree on {nested}")
            producers.append({"kind": kind, "gen": gen, "expected": expected, "close": False})
        elif kind == "arrange":
            if isinstance(nested, str):
                items = [nested]
            else:
                items = [c for c in nested]
            if len(items) > 5:
                items = items[:5]
            atoms = [Tree(ref.to_newick(it), format=1) for it in items]
            expected = sorted(repr(ref.nested_clades(t) if not isinstance(t, str) else frozenset())
                              for t in _all_arrangements(list(items)))
            producers.append({"kind": kind, "gen": trees.arrange_leaves(atoms),
                              "expected": expected, "close": True, "inputs": atoms,
                              "inputs_snap": [_snap(a) for a in atoms]})
        else:
            if not ref.is_binary(nested):
                base = next(ref.refinements(nested))
            else:
                base = nested
            host = Tree(ref.to_newick(base), format=1)
            leaf = Tree("zz;", format=1)
            ignore = None
            positions = []

            def walk(x, blocked, positions=positions):
                positions.append(x)
                if not isinstance(x, str) and not blocked(x):
                    for c in x:
                        walk(c, blocked)

            if kind == "graft_ignore" and not isinstance(base, str):
                internals = [n for n in host.traverse() if not n.is_leaf()]
                chosen = internals[case["graft_pick"] % len(internals)]
                ignore = {chosen.get_topology_id()}
                chosen_clade = tuple(sorted(l.name for l in chosen.get_leaves()))
                walk(base, lambda x: tuple(sorted(ref.nested_leaves(x))) == chosen_clade)
                run.probe("graft_ignore")
            else:
                walk(base, lambda x: False)
            expected = sorted(repr(_graft_clades(base, p)) for p in positions)
            producers.append({"kind": kind, "gen": trees.graft(host, leaf, ignore),
                              "expected": expected, "close": True, "inputs": [host, leaf],
                              "inputs_snap": [_snap(host), _snap(leaf)]})
    if not producers:
        return
    if len(producers) > 1:
        run.probe("two_generators_alive")
        run.nontrivial = True
    for p in producers:
        p.update(state="open", yields=[], objs=[])

    def step(p, n):
        for _ in range(n):
            if p["state"] != "open":
                return
            if len(p["yields"]) > len(p["expected"]) + 2:
                run.check(False, props, "C08.enumerator-does-not-stop",
                          f"{p['kind']}: more than {len(p['expected'])} + 2 yields")
                p["state"] = "over"
                return
            try:
                obj = next(p["gen"])
            except StopIteration:
                p["state"] = "done"
                return
            except Exception as exc:  # noqa: BLE001
                run.check(False, props, "C08.enumerator-raised",
                          f"{p['kind']} on {nested}: {type(exc).__name__}: {exc!s:.200}")
                p["state"] = "failed"
                return
            p["yields"].append((_snap(obj), repr(_clades(obj))))
            p["objs"].append(obj)

    for t, action, n in case["sched"]:
        p = producers[t % len(producers)]
        if action == "step":
            step(p, n)
        elif action == "drain":
            step(p, len(p["expected"]) + 3)
        elif action == "close" and p["state"] == "open" and p["close"]:
            p["gen"].close()
            p["state"] = "closed"
            run.fault("F1_cancel")
            if p["yields"]:
                run.probe("cancelled_midway")
        elif action == "throw" and p["state"] == "open" and p["close"]:
            try:
                p["gen"].throw(SimFault("injected"))
            except (SimFault, StopIteration):
                pass
            p["state"] = "thrown"
            run.fault("F1_throw")
    for p in producers:
        if p["state"] == "open":
            step(p, len(p["expected"]) + 3)
    seen_nodes = {}
    for pi, p in enumerate(producers):
        where = f"{p['kind']} of {nested}"
        got = sorted(c for _, c in p["yields"])
        if p["state"] == "done":
            run.check(got == p["expected"], props, "C08.enumerator-multiset",
                      lambda: f"{where}: {len(got)} trees ({len(set(got))} distinct), reference "
                              f"has {len(p['expected'])} "
                              f"({len(set(p['expected']))} distinct)")
        else:
            pool = list(p["expected"])
            ok = True
            for c in got:
                if c in pool:
                    pool.remove(c)
                else:
                    ok = False
            run.check(ok, props, "C08.enumerator-prefix",
                      lambda: f"{where}: a cancelled enumeration had yielded a tree outside the "
                              f"reference multiset")
        now = [(_snap(o), repr(_clades(o))) for o in p["objs"]]
        run.check(now == p["yields"], props, "C08.yielded-tree-changed-later",
                  lambda: f"{where}: a tree changed after it was yielded (aliasing between "
                          f"results): first difference at index "
                          f"{next(i for i, (a, b) in enumerate(zip(now, p['yields'])) if a != b)}")
        run.check(all(s[1] for s, _ in now), props, "C08.shared-subtree",
                  lambda: f"{where}: child.up is not parent somewhere in a yielded tree")
        for o in p["objs"]:
            for node in o.traverse():
                other = seen_nodes.setdefault(id(node), (pi, o))
                run.check(other[1] is o, props, "C08.node-shared-between-results",
                          lambda: f"{where}: one node object belongs to two yielded trees")
        if p["kind"] == "binarize":
            _check_binarize_features(run, case, src, p, where)
        if "inputs" in p and [_snap(a) for a in p["inputs"]] != p["inputs_snap"]:
            run.probe("enumerator_argument_mutated")  # consequences are what is checked
    if _snap(src) != src_snap:
        run.probe("enumerator_argument_mutated")
    run.event("enum", [(p["kind"], p["state"], len(p["yields"])) for p in producers])
    run.nontrivial = True


def _graft_clades(base, position):
    """Clades of base with leaf 'zz' grafted as sister of the sub-structure `position`."""
    def go(x):
        if x is position:
            return ["zz", x]
        if isinstance(x, str):
            return x
        return [go(c) for c in x]

    return ref.nested_clades(go(base))


def _check_binarize_features(run, case, src, p, where):
    """Original nodes keep their name / colour on the refined node of the same clade; leaves
    keep theirs; every result is binary with the original leaf set."""
    props = ("C08",)
    sidx = canon.ete_clade_index(src)
    want = {c: (n.name, getattr(n, "color", None)) for n, c in sidx.items()}
    leaves = sorted(ref.nested_leaves(case["tree"]))
    for o in p["objs"]:
        oidx = canon.ete_clade_index(o)
        got = {c: (n.name, getattr(n, "color", None)) for n, c in oidx.items()}
        run.check(all(len(n.children) in (0, 2) for n in o.traverse())
                  and sorted(leaf.name for leaf in o.get_leaves()) == leaves, props,
                  "C08.refinement-not-binary", lambda: f"{where}: a result is not binary")
        run.check(all(got.get(c) == v for c, v in want.items()), props,
                  "C08.features-lost",
                  lambda: f"{where}: original node names/colours {want} not all kept: {got}")
        extra = {c: v for c, v in got.items() if c not in want}
        run.check(all(v[1] is None for v in extra.values()), props, "C08.features-leaked",
                  lambda: f"{where}: a new node carries a colour: {extra}")
