"""Engine E6 (order-util): toposort / toposort_all, DisjointSet histories, triples and
supertrees under simulator-chosen iteration and pop() orders.  Serves C19 and C20.

Live dimensions: D3 (`set(graph)`, successor sets, `set.pop()` of tree nodes,
`list(set)` of leaves / triples / group representatives) and D1 (union histories on one
DisjointSet whose reads compress paths; several operations on the same caller-owned graph
or tree object).
"""
import itertools

from hypothesis import strategies as st

from .kernel import ORACLE, Run, SimSet

NAME = "E6-order-util"
_m = {}


def prepare():
    from ete3 import Tree
    from superrec2.utils import disjoint_set, toposort, trees

    _m.update(Tree=Tree, ds=disjoint_set, topo=toposort, trees=trees)


# --------------------------------------------------------------------------------------
# reference models (plain data, no package code)
# --------------------------------------------------------------------------------------
def ref_toposorts(vertices, edges):
    """R-perm: all topological orderings by filtering permutations."""
    if any(a == b for a, b in edges):
        return []
    out = []
    for perm in itertools.permutations(vertices):
        pos = {v: i for i, v in enumerate(perm)}
        if all(pos[a] < pos[b] for a, b in edges):
            out.append(perm)
    return out


def shape_to_tree(shape, names):
    """shape: list of ints; builds a random binary tree over names by successive joins."""
    nodes = list(names)
    i = 0
    while len(nodes) > 1:
        a = shape[i % len(shape)] % len(nodes)
        i += 1
        x = nodes.pop(a)
        b = shape[i % len(shape)] % len(nodes)
        i += 1
        y = nodes.pop(b)
        nodes.append((x, y))
    return nodes[0]


def newick(t):
    return t if isinstance(t, str) else "(" + ",".join(newick(c) for c in t) + ")"


def clades(t):
    out = set()

    def go(x):
        if isinstance(x, str):
            return frozenset([x])
        s = frozenset().union(*map(go, x))
        out.add(s)
        return s

    go(t)
    return out


def leaves_of(t):
    return [t] if isinstance(t, str) else [x for c in t for x in leaves_of(c)]


def restrict(t, keep):
    if isinstance(t, str):
        return t if t in keep else None
    kids = [r for r in (restrict(c, keep) for c in t) if r is not None]
    if not kids:
        return None
    if len(kids) == 1:
        return kids[0]
    return tuple(kids)


def all_binary(names):
    """R-trees: every binary leaf-labelled tree on names, by recursive insertion."""
    if len(names) == 1:
        yield names[0]
        return
    for t in all_binary(names[1:]):
        yield from _insert(t, names[0])


def _insert(t, x):
    yield (x, t)
    if not isinstance(t, str):
        a, b = t
        for a2 in _insert(a, x):
            yield (a2, b)
        for b2 in _insert(b, x):
            yield (a, b2)


def displays(cl, triple):
    """Triple (a, b | c): the smallest clade holding a and b does not hold c."""
    a, b, c = triple
    cands = [s for s in cl if a in s and b in s]
    if not cands:
        return False
    return c not in min(cands, key=len)


def all_triples(t):
    names = leaves_of(t)
    cl = clades(t)
    out = []
    for x, y in itertools.combinations(sorted(names), 2):
        for z in names:
            if z not in (x, y) and displays(cl, (x, y, z)):
                out.append((x, y, z))
    return out


def ete_clades(tree):
    return {
        frozenset(leaf.name for leaf in node.get_leaves())
        for node in tree.traverse()
        if not node.is_leaf()
    }


def canon_clades(cl):
    return tuple(sorted(tuple(sorted(s)) for s in cl))


# --------------------------------------------------------------------------------------
# strategies
# --------------------------------------------------------------------------------------
ORDER = st.integers(0, 12)


@st.composite
def _topo_case(draw, tier):
    n = draw(st.integers(0, 6 if tier == "thorough" else 5))
    wide = draw(st.integers(0, 49)) == 0
    if wide:
        n = 7  # up to 5040 orderings (more than a thousand): sparse graphs only
    vorder = draw(st.permutations(list(range(n))))
    dens = 0 if wide else draw(st.sampled_from([1, 2, 3, 5]))
    edges = []
    for a in range(n):
        for b in range(n):
            r = draw(st.integers(0, 9))
            if a == b:
                if r == 0 and dens >= 3:
                    edges.append([a, b])
            elif r < dens:
                edges.append([a, b])
    if wide:
        for _ in range(draw(st.integers(0, 2))):
            a, b = draw(st.integers(0, n - 1)), draw(st.integers(0, n - 1))
            if a != b and [a, b] not in edges:
                edges.append([a, b])
    if draw(st.booleans()):
        # make it acyclic along a hidden order so that orderings exist often
        rank = draw(st.permutations(list(range(n))))
        edges = [[a, b] for a, b in edges if rank[a] < rank[b]]
    eorder = draw(st.permutations(edges)) if edges else []
    # third field: what the caller does with the returned lists before the next call
    # (0 nothing, 1 reverses / extends an ordering in place, 2 empties the result)
    ops = draw(st.lists(st.tuples(st.sampled_from(["all", "one", "all", "one", "edit"]), ORDER,
                                  st.sampled_from([0, 0, 1, 2])).map(list),
                        min_size=1, max_size=5))
    if wide:
        ops = ops[:2]
    return {"engine": NAME, "kind": "topo", "n": n, "vorder": list(vorder),
            "edges": [list(e) for e in eorder], "ops": ops}


@st.composite
def _dset_case(draw, tier):
    n = draw(st.integers(1, 6))
    ops = []
    for _ in range(draw(st.integers(1, 10 if tier == "thorough" else 7))):
        kind = draw(st.sampled_from(["unite", "unite", "unite", "find", "list", "len", "repr",
                                     "binary"]))
        if kind in ("unite", "find"):
            ops.append([kind, draw(st.integers(0, n - 1)), draw(st.integers(0, n - 1))])
        elif kind == "binary":
            ops.append([kind, draw(ORDER)])
        else:
            ops.append([kind])
    return {"engine": NAME, "kind": "dset", "n": n, "ops": ops}


@st.composite
def _triples_case(draw, tier):
    k = draw(st.integers(1, 6 if tier == "thorough" else 5))
    shape = draw(st.lists(st.integers(0, 5), min_size=2, max_size=12))
    mask = draw(st.lists(st.booleans(), min_size=60, max_size=60))
    extra = draw(st.lists(st.tuples(st.integers(0, 5), st.integers(0, 5), st.integers(0, 5)).map(list),
                          max_size=2)) if draw(st.integers(0, 3)) == 0 else []
    perm = draw(st.permutations(list(range(60))))
    return {"engine": NAME, "kind": "triples", "k": k, "shape": shape, "mask": mask,
            "extra": extra, "perm": list(perm)[:20],
            "orders": [draw(ORDER) for _ in range(4)],
            # the triples come as a list: the same triple may be listed more than once
            # (decompositions of overlapping trees concatenated)
            "repeat": draw(st.sampled_from([0, 0, 0, 1, 3]))}


@st.composite
def _super_case(draw, tier):
    k = draw(st.integers(2, 6 if tier == "thorough" else 5))
    shape = draw(st.lists(st.integers(0, 5), min_size=2, max_size=12))
    subsets = draw(st.lists(st.lists(st.booleans(), min_size=k, max_size=k), min_size=1, max_size=3))
    return {"engine": NAME, "kind": "super", "k": k, "shape": shape, "subsets": subsets,
            "orders": [draw(ORDER) for _ in range(3)],
            # how the caller hands the trees over: a list, or a one-shot lazy iterable (the
            # signature says Iterable[Tree]) that can be traversed only once
            "lazy": draw(st.sampled_from([0, 0, 1, 2]))}


def strategy(pid, tier):
    if pid == "C19":
        return _topo_case(tier)
    return st.one_of(_dset_case(tier), _triples_case(tier), _triples_case(tier), _super_case(tier))


# --------------------------------------------------------------------------------------
# executor
# --------------------------------------------------------------------------------------
def execute(case, focus=None):
    run = Run(focus)
    ORACLE.begin(0)
    {"topo": _exec_topo, "dset": _exec_dset, "triples": _exec_triples,
     "super": _exec_super}[case["kind"]](run, case)
    return run


def _note_order(run):
    if ORACLE.permuted:
        run.probe("order_permuted", ORACLE.permuted)
        run.nontrivial = True


def _exec_topo(run, case):
    topo = _m["topo"]
    names = [f"v{i}" for i in range(case["n"])]
    vertices = [names[i] for i in case["vorder"]]
    edges = [(names[a], names[b]) for a, b in case["edges"]]
    graph = {v: SimSet() for v in vertices}
    for a, b in edges:
        graph[a].add(b)
    snapshot = {v: sorted(s._ord) for v, s in graph.items()}
    expected = ref_toposorts(vertices, edges)
    exp_multi = sorted(expected)
    if any(a == b for a, b in edges):
        run.probe("self_loop")
    run.probe("cyclic" if not expected else "acyclic")
    if len(expected) > 1:
        run.probe("several_orderings")
    for idx, op in enumerate(case["ops"]):
        fn, order = op[0], op[1]
        use = op[2] if len(op) > 2 else 0
        if fn == "edit":
            # the caller changes its own graph IN PLACE between two calls: one edge toggled
            # in a successor set of the same mapping object (`order` picks the pair)
            if len(vertices) >= 1:
                a = vertices[order % len(vertices)]
                b = vertices[(order // 3 + use) % len(vertices)]
                if (a, b) in edges:
                    edges.remove((a, b))
                    graph[a].discard(b)
                else:
                    edges.append((a, b))
                    graph[a].add(b)
                snapshot = {v: sorted(s._ord) for v, s in graph.items()}
                expected = ref_toposorts(vertices, edges)
                exp_multi = sorted(expected)
                run.probe("graph_edited_in_place")
                run.nontrivial = True
            run.event(idx, "edit", order, len(edges))
            continue
        ORACLE.begin(order)
        if fn == "all":
            got = topo.toposort_all(graph)
            got_multi = sorted(tuple(g) for g in got)
            run.check(got_multi == exp_multi, ("C19",), "C19.all",
                      lambda: f"toposort_all of vertices {vertices} edges {edges} under order "
                              f"{order}: got {got_multi[:6]} ({len(got_multi)}), expected "
                              f"{exp_multi[:6]} ({len(exp_multi)})")
            obs = len(got_multi)
        else:
            got = topo.toposort(graph)
            ok = (got is None and not expected) or (got is not None and tuple(got) in set(expected))
            run.check(ok, ("C19",), "C19.one",
                      lambda: f"toposort of vertices {vertices} edges {edges} under order {order}: "
                              f"got {got}, {len(expected)} valid orderings exist")
            obs = None if got is None else 1
        _note_order(run)
        if use and got is not None:
            # the returned lists belong to the caller, who may do anything with them
            run.probe("caller_modified_result")
            ORACLE.begin(0)
            if fn == "all" and use == 1:
                for ordering in got[:1]:
                    ordering.reverse()
                    ordering.append("extra")
            elif fn == "all":
                del got[:]
            elif use == 1:
                got.reverse()
            else:
                del got[:]
        now = {v: sorted(s._ord) for v, s in graph.items()}
        if now != snapshot or list(graph) != vertices:
            # not forbidden by the statement: the consequences (later calls of this history
            # on the same graph object) are what is checked
            run.probe("graph_mutated_by_call")
        run.event(idx, fn, order, ORACLE.consults, obs)
    if len(case["ops"]) > 1:
        run.nontrivial = True


def _exec_dset(run, case):
    DisjointSet = _m["ds"].DisjointSet
    n = case["n"]
    ds = DisjointSet(n)
    model = [{i} for i in range(n)]

    def block(x):
        return next(s for s in model if x in s)

    def canon(groups):
        return sorted(sorted(g) for g in groups)

    def check_state(where):
        got = canon(ds.to_list())
        run.check(got == canon(model) and len(ds) == len(model), ("C20",), "C20.dset-partition",
                  lambda: f"{where}: DisjointSet reports {got} (len {len(ds)}), unions generate "
                          f"{canon(model)}")

    for idx, op in enumerate(case["ops"]):
        kind = op[0]
        where = f"after op {idx} {op}"
        ORACLE.begin(0)
        if kind == "unite":
            a, b = op[1], op[2]
            A, B = block(a), block(b)
            merged = A is not B
            if merged:
                model.remove(B)
                A |= B
                run.nontrivial = run.nontrivial or len(A) > 2
            got = ds.unite(a, b)
            obs = bool(got) == merged  # the return value is not part of the statement
        elif kind == "find":
            a, b = op[1], op[2]
            same = ds.find(a) == ds.find(b)
            run.check(same == (block(a) is block(b)), ("C20",), "C20.dset-find",
                      lambda: f"{where}: find({a})==find({b}) is {same}, model {canon(model)}")
            rep = ds.find(a)
            run.check(rep in block(a), ("C20",), "C20.dset-find",
                      lambda: f"{where}: representative {rep} of {a} outside its block")
            obs = same
        elif kind == "list":
            obs = canon(ds.to_list())
        elif kind == "len":
            obs = len(ds)
        elif kind == "repr":
            obs = len(repr(ds)) > 0  # exercised (it calls find); its format is not specified
        else:
            ORACLE.begin(op[1])
            res = ds.binary()
            got = sorted(tuple(map(tuple, canon(b.to_list()))) for b in res)
            groups = [frozenset(s) for s in model]
            exp = set()
            for r in range(1, len(groups)):
                for c in itertools.combinations(groups, r):
                    A = frozenset().union(*c)
                    B = frozenset().union(*(g for g in groups if g not in c))
                    exp.add(tuple(sorted([tuple(sorted(A)), tuple(sorted(B))])))
            run.check(got == sorted(exp), ("C20",), "C20.dset-binary",
                      lambda: f"{where}: binary() of {canon(model)} under order {op[1]} gives "
                              f"{got}, expected each of {sorted(exp)} once")
            run.check(all(len(b) == 2 for b in res), ("C20",), "C20.dset-binary",
                      lambda: f"{where}: binary() result with len != 2")
            _note_order(run)
            run.probe("binary_enumerated")
            if len(exp) > 1:
                run.nontrivial = True
            obs = len(got)
        check_state(where)
        run.event(idx, kind, repr(obs))


def _mk_triple(a, b, c):
    return (a, b, c) if a <= b else (b, a, c)


def _exec_triples(run, case):
    trees, Tree = _m["trees"], _m["Tree"]
    k = case["k"]
    names = [chr(97 + i) for i in range(k)]
    t = shape_to_tree(case["shape"], names) if k > 1 else names[0]
    cl = clades(t)
    tree = Tree(newick(t) + ";")
    before = tree.write(format=9)
    o = case["orders"]

    # BreakUp -> OneTree round trip under drawn pop / iteration orders
    ORACLE.begin(o[0])
    leaves, triples = trees.tree_to_triples(tree)
    _note_order(run)
    if tree.write(format=9) != before:
        run.probe("tree_mutated_by_call")
    ORACLE.begin(o[1])
    rebuilt = trees.tree_from_triples(leaves, triples)
    run.check(rebuilt is not None and ete_clades(rebuilt) == cl and
              sorted(leaf.name for leaf in rebuilt.get_leaves()) == sorted(names),
              ("C20",), "C20.roundtrip",
              lambda: f"{newick(t)} -> triples {triples} (pop order {o[0]}) -> "
                      f"{None if rebuilt is None else rebuilt.write(format=9)}: clades differ")
    run.event("roundtrip", o[0], o[1], sorted(triples))
    if k >= 3:
        run.nontrivial = True

    # AllTrees / OneTree on a drawn subset of the displayed triples (+ possibly foreign ones)
    universe = all_triples(t)
    subset = [tr for i, tr in enumerate(universe) if case["mask"][i % len(case["mask"])]]
    for a, b, c in case["extra"]:
        a, b, c = a % k, b % k, c % k
        if len({a, b, c}) == 3:
            subset.append(_mk_triple(names[a], names[b], names[c]))
            run.probe("foreign_triple")
    if case.get("repeat") and subset:
        subset = subset + subset[: case["repeat"]]
        run.probe("repeated_triple")
    # drawn presentation order of the triple list
    keyed = sorted(range(len(subset)), key=lambda i: case["perm"][i % len(case["perm"])] * 100 + i)
    subset = [subset[i] for i in keyed]
    expected = [bt for bt in all_binary(names) if all(displays(clades(bt) | {frozenset(names)}, tr)
                                                       for tr in subset)]
    exp_canon = sorted(canon_clades(clades(bt)) for bt in expected)
    ORACLE.begin(o[2])
    got = trees.all_trees_from_triples(list(names), list(subset))
    _note_order(run)
    got_canon = sorted(canon_clades(ete_clades(g)) for g in got)
    run.check(got_canon == exp_canon, ("C20",), "C20.all-trees",
              lambda: f"all_trees_from_triples({names}, {subset}) under order {o[2]}: "
                      f"{len(got_canon)} trees, expected {len(exp_canon)} "
                      f"(first differing: {sorted(set(got_canon) ^ set(exp_canon))[:2]})")
    run.check(all(_binary_ok(g, names) for g in got), ("C20",), "C20.all-trees-shape",
              lambda: "all_trees_from_triples returned a non-binary tree or wrong leaf set")
    problem = _well_formed(got)
    run.check(problem is None, ("C20",), "C20.all-trees-malformed",
              lambda: f"all_trees_from_triples({names}, {subset}): {problem}")
    ORACLE.begin(o[3])
    one = trees.tree_from_triples(list(names), list(subset))
    if k >= 1:
        run.check((one is not None) == bool(expected), ("C20",), "C20.one-tree-iff",
                  lambda: f"tree_from_triples({names}, {subset}) is "
                          f"{'None' if one is None else one.write(format=9)} but "
                          f"{len(expected)} binary trees display every triple")
    if one is not None:
        ocl = ete_clades(one) | {frozenset(names)}
        run.check(all(displays(ocl, tr) for tr in subset) and
                  sorted(leaf.name for leaf in one.get_leaves()) == sorted(names),
                  ("C20",), "C20.one-tree-displays",
                  lambda: f"tree_from_triples({names}, {subset}) = {one.write(format=9)} does "
                          f"not display every triple")
        problem1 = _well_formed([one])
        run.check(problem1 is None, ("C20",), "C20.one-tree-malformed",
                  lambda: f"tree_from_triples({names}, {subset}): {problem1}")
    # deferred inspection: what was handed out earlier is still what it was
    again = sorted(canon_clades(ete_clades(g)) for g in got)
    run.check(again == got_canon and _well_formed(got) is None, ("C20",),
              "C20.all-trees-changed-later",
              lambda: "trees returned by all_trees_from_triples changed after a later call")
    if not expected:
        run.probe("inconsistent_triples")
    if len(expected) > 1:
        run.probe("several_trees")
    run.event("alltrees", len(got_canon), one is None)


def _well_formed(results):
    """Every returned tree is a tree of its own: each child's parent link points back to the
    node it hangs from, and no node object occurs in two results (a shared subtree looks
    right when written from the root, and breaks when walked from the leaves or edited)."""
    seen = {}
    for i, tree in enumerate(results):
        if tree.up is not None:
            return f"result {i}: the root has a parent"
        for node in tree.traverse():
            if id(node) in seen:
                return f"results {seen[id(node)]} and {i} share a node object"
            seen[id(node)] = i
            for child in node.children:
                if child.up is not node:
                    return (f"result {i}: a child of the node above "
                            f"{sorted(leaf.name for leaf in node.get_leaves())} has its parent "
                            f"link pointing elsewhere")
    return None


def _binary_ok(tree, names):
    for node in tree.traverse():
        if not node.is_leaf() and len(node.children) != 2:
            return False
        if node.is_leaf() and node.name not in names:
            return False
    return sorted(leaf.name for leaf in tree.get_leaves()) == sorted(names)


def _exec_super(run, case):
    trees, Tree = _m["trees"], _m["Tree"]
    k = case["k"]
    names = [chr(97 + i) for i in range(k)]
    hidden = shape_to_tree(case["shape"], names)
    parts = []
    for mask in case["subsets"]:
        keep = {n for n, m in zip(names, mask) if m}
        if len(keep) >= 2:
            parts.append(restrict(hidden, keep))
    if not parts:
        return
    union = sorted(set().union(*(leaves_of(p) for p in parts)))
    inputs = [Tree(newick(p) + ";") for p in parts]
    before = [x.write(format=9) for x in inputs]
    o = case["orders"]
    need = [tr for p in parts for tr in all_triples(p)]
    lazy = case.get("lazy", 0)

    def handed(seq):
        if lazy == 1:
            return iter(seq)
        if lazy == 2:
            return (t for t in seq)
        return seq

    if lazy:
        run.probe("lazy_iterable_argument")
        run.nontrivial = True
    ORACLE.begin(o[0])
    sup = trees.supertree(handed(inputs))
    _note_order(run)
    run.check(sup is not None, ("C20",), "C20.supertree-exists",
              lambda: f"supertree of compatible trees {[newick(p) for p in parts]} is None")
    scl = ete_clades(sup) | {frozenset(union)}
    run.check(sorted(leaf.name for leaf in sup.get_leaves()) == union and
              all(displays(scl, tr) for tr in need), ("C20",), "C20.supertree-displays",
              lambda: f"supertree {sup.write(format=9)} of {[newick(p) for p in parts]} under "
                      f"order {o[0]} does not display every input tree")
    ORACLE.begin(o[1])
    allsup = trees.all_supertrees(handed(inputs))
    _note_order(run)
    expected = [bt for bt in all_binary(union)
                if all(displays(clades(bt) | {frozenset(union)}, tr) for tr in need)]
    got_canon = sorted(canon_clades(ete_clades(g)) for g in allsup)
    exp_canon = sorted(canon_clades(clades(bt)) for bt in expected)
    run.check(got_canon == exp_canon, ("C20",), "C20.all-supertrees",
              lambda: f"all_supertrees of {[newick(p) for p in parts]} under order {o[1]}: "
                      f"{len(got_canon)} trees, expected {len(exp_canon)}")
    problem = _well_formed(list(allsup)) or _well_formed([sup])
    run.check(problem is None, ("C20",), "C20.supertrees-malformed",
              lambda: f"supertrees of {[newick(p) for p in parts]}: {problem}")
    if [x.write(format=9) for x in inputs] != before:
        run.probe("tree_mutated_by_call")
    if len(parts) > 1:
        run.nontrivial = True
        run.probe("several_input_trees")
    run.event("super", [newick(p) for p in parts], len(got_canon))


def describe(pid):
    common_real = ["superrec2.utils.toposort, utils.disjoint_set, utils.trees (compiled from the "
                   "working tree, sets routed to SimSet)", "ete3"]
    if pid == "C19":
        return {
            "rule": "Hypothesis-drawn digraphs on 0-5 (thorough 0-6) vertices with drawn key "
                    "order, drawn edge insertion order, optional self-loops, optionally filtered "
                    "to be acyclic; a history of 1-4 toposort_all / toposort calls on the same "
                    "graph object (between two calls the caller may toggle an edge of that object in "
                    "place), each under a drawn iteration order of `set(graph)` and of "
                    "every successor set, after which the caller may reverse/extend/empty the lists it "
                    "was handed; results compared with permutation filtering and the "
                    "graph with its snapshot. Non-trivial: an order was permuted or more than "
                    "one call ran on the graph; distinct = distinct case digest.",
            "real": common_real,
            "stub": ["iteration order of sets (order oracle)"],
            "assumptions": ["successor sets only mention vertices that are keys of the graph",
                            "seeded sampling, not exhaustive enumeration"],
            "probes_expected": ["order_permuted", "self_loop", "cyclic", "acyclic",
                                "several_orderings", "caller_modified_result",
                                "graph_edited_in_place"],
        }
    return {
        "rule": "Hypothesis-drawn cases of three kinds: (1) DisjointSet histories of 1-7 (10) "
                "unite/find/len/to_list/repr/binary operations on 1-6 elements against a "
                "partition model, checked after every operation (find compresses paths); (2) a "
                "binary tree on 1-5 (6) leaves -> tree_to_triples under a drawn pop order -> "
                "tree_from_triples, then all_trees_from_triples / tree_from_triples on a drawn "
                "subset (drawn presentation order, optional foreign triples) against the "
                "enumeration of all binary trees; (3) supertree / all_supertrees of 1-3 "
                "restrictions of a hidden tree under drawn list(set) orders, handed over as a list "
                "or as a one-shot lazy iterable. Non-trivial: an "
                "order was permuted, a block of 3+ elements was formed, or >= 3 leaves; "
                "distinct = distinct case digest.",
        "real": common_real,
        "stub": ["iteration / pop order of sets (order oracle)"],
        "assumptions": ["leaf names are distinct", "seeded sampling, not exhaustive enumeration"],
        "probes_expected": ["order_permuted", "binary_enumerated", "foreign_triple",
                            "inconsistent_triples", "several_trees", "several_input_trees",
                            "lazy_iterable_argument", "repeated_triple"],
    }
