"""Seam S4: the TeX engine as a simulated peer process.

`superrec2.utils.tex` keeps running its real code (source assembly, engine selection,
stdout parsing); only `shutil.which`, `subprocess.run`, `tempfile.TemporaryDirectory` and
`open` inside that module are replaced.  The peer answers one `$$$w,h,d` line per
`\\savebox ... \\typeout{$$$...}` pair it finds in the source it is given, with sizes drawn
from the case, interleaved with engine chatter, and can misbehave (fault kinds F4).
"""
import io
import random
import re
import types

SAVEBOX = re.compile(r"^\\savebox\{\\measurebox\}\{(.*)\}$")


class PeerExit(Exception):
    pass


class TexPeer:
    def __init__(self):
        self.configure({})
        self.files = {}
        self.calls = 0
        self.measured = 0
        self.fired = {}

    def configure(self, cfg):
        self.engine = cfg.get("engine", "tectonic")  # tectonic | xelatex | both | none
        self.seed = int(cfg.get("seed", 1))
        self.by_text = bool(cfg.get("by_text", False))
        self.chatter = bool(cfg.get("chatter", False))
        self.fault = cfg.get("fault")  # None | exit | drop | dup
        self.fault_at = int(cfg.get("fault_at", 0))
        self.transpose = False
        self.maxsize = int(cfg.get("maxsize", 100))

    # -- what utils.tex sees ---------------------------------------------------------
    def which(self, name):
        if self.engine == "both" or self.engine == name:
            return f"/sim/bin/{name}"
        return None

    def size_for(self, index, text):
        key = f"{self.seed}/{text}" if self.by_text else f"{self.seed}#{index}"
        rng = random.Random(key)
        w = round(rng.uniform(1, self.maxsize), 5)
        h = round(rng.uniform(1, self.maxsize * 0.6), 5)
        d = round(rng.uniform(0, self.maxsize * 0.4), 5)
        if self.transpose:
            return (round(h + d, 5), w, 0.0)
        return (w, h, d)

    def run(self, cmd, **kw):
        self.calls += 1
        if cmd[0] == "tectonic":
            source = kw.get("input")
        else:
            source = self.files.get(cmd[-1], "")
        out = []
        if self.chatter:
            out.append("note: Running TeX ...")
            out.append("This is a simulated engine $$ not a measurement")
            # what engines print in scroll mode: echoed source context (with the marker in the
            # middle of a line), blank lines
            out.append(r"l.5 \typeout{$$$\the\wd\measurebox,\the\ht\measurebox")
            out.append("")
        lines = source.splitlines()
        index = 0
        for i, line in enumerate(lines):
            m = SAVEBOX.match(line)
            if m and i + 1 < len(lines) and lines[i + 1].startswith(r"\typeout{$$$"):
                w, h, d = self.size_for(index, m.group(1))
                row = f"$$${w}pt,{h}pt,{d}pt"
                if self.fault == "drop" and index == self.fault_at:
                    self.fired["peer_drop"] = self.fired.get("peer_drop", 0) + 1
                else:
                    out.append(row)
                    if self.fault == "dup" and index == self.fault_at:
                        out.append(row)
                        self.fired["peer_dup"] = self.fired.get("peer_dup", 0) + 1
                if self.chatter and index % 3 == 0:
                    out.append("warning: Overfull \\hbox (badness 10000)")
                index += 1
        self.measured += index
        code = 0
        if self.fault == "exit":
            code = 1
            self.fired["peer_exit"] = self.fired.get("peer_exit", 0) + 1
        eol = "\r\n" if self.chatter and self.seed % 2 else "\n"  # universal newlines or not
        return types.SimpleNamespace(returncode=code, stdout=eol.join(out) + eol, stderr="")

    # -- file seam for the xelatex path ---------------------------------------------
    def open(self, path, mode="r", **kw):
        peer = self
        if "w" in mode:
            class W(io.StringIO):
                def close(self_inner):
                    peer.files[path] = self_inner.getvalue()
                    io.StringIO.close(self_inner)

                def __exit__(self_inner, *a):
                    self_inner.close()

            return W()
        if "b" in mode:
            return io.BytesIO(b"%PDF-sim")
        return io.StringIO(self.files[path])

    class _Tmp:
        def __enter__(self):
            return "/sim/tmp"

        def __exit__(self, *a):
            return False

    def install(self, tex_module):
        import shutil

        tex_module.shutil = types.SimpleNamespace(which=self.which,
                                                  copyfileobj=shutil.copyfileobj)
        tex_module.subprocess = types.SimpleNamespace(run=self.run, PIPE=-1, DEVNULL=-3)
        tex_module.tempfile = types.SimpleNamespace(TemporaryDirectory=self._Tmp)
        tex_module.open = self.open


PEER = TexPeer()
