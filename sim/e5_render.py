"""Engine E5 (render): layout.compute / tikz.render histories on one reconciliation object,
with the TeX engine simulated as a peer (seam S4).  Serves C13, C14, C15.

Dimensions: D4 (the peer's sizes, chatter, engine choice and failures) and D1 (compute
writes colour features into the caller's tree; several computes / renders / orientation
switches happen on the same object).
"""
import hashlib
import math
import re

from hypothesis import strategies as st

from . import canon, ref
from .kernel import ORACLE, HarnessError, Run
from .peer import PEER

NAME = "E5-render"
_m = {}


def prepare():
    from superrec2.model import reconciliation as model
    from superrec2.render import layout, tikz
    from superrec2.render import model as rmodel
    from superrec2.utils import tex

    _m.update(model=model, layout=layout, tikz=tikz, rmodel=rmodel, tex=tex)
    PEER.install(tex)


# --------------------------------------------------------------------------------------
# strategies
# --------------------------------------------------------------------------------------
NAME_ALPHABET = "abXY019_\\"
COLORS = ["ff0000", "00aa00", "0000ff", "123abc", "000000"]
PARAM_CHOICES = {
    "species_branch_padding": [4, 0.5, 11],
    "gene_branch_spacing": [5, 1, 17],
    "trunk_overhead": [10, 0.25, 30],
    "min_subtree_spacing": [12, 1, 40],
    "level_spacing": [4, 0.5, 25],
    "species_leaf_spacing": [1, 6],
    "species_label_spacing": [10, 2],
    "extant_gene_diameter": [3, 8],
}


@st.composite
def _name(draw, used):
    for _ in range(20):
        n = draw(st.integers(1, 4))
        s = "".join(draw(st.sampled_from(NAME_ALPHABET)) for _ in range(n))
        if s not in used and s.lower() not in {u.lower() for u in used}:
            used.add(s)
            return s
    s = f"n{len(used)}"
    used.add(s)
    return s


@st.composite
def _case(draw, pid, tier):
    from .e1_solver import _shape, _size

    thorough = tier == "thorough"
    nsp = draw(_size(1, 6 if thorough else 5))
    fancy = draw(st.integers(0, 2)) == 0 if pid != "C15" else draw(st.booleans())
    used = set()
    if fancy:
        sp_names = [draw(_name(used)) for _ in range(nsp)]
    else:
        sp_names = list("ABCDEFGH"[:nsp])
        used.update(sp_names)
    species = draw(_shape(sp_names, 2))
    nobj = draw(_size(1, 10 if thorough else 6))
    leaves = []
    leaf_species = {}
    for i in range(nobj):
        sp = sp_names[draw(st.integers(0, nsp - 1))]
        suffix = draw(_name(used)) if fancy else str(i)
        leaf = f"{sp}_{suffix}"
        while leaf in leaves:
            leaf += "x"
        leaves.append(leaf)
        leaf_species[leaf] = sp
    obj = draw(_shape(leaves, 2))
    n_internal = max(0, nobj - 1)
    picks = [draw(st.integers(0, 30)) for _ in range(n_internal)]
    case = {
        "engine": NAME,
        "species": species,
        "object": obj,
        "leaf_species": leaf_species,
        "picks": picks,
        "syn": None,
        "colors": {},
        "params": {},
        "peer": {
            "seed": draw(st.integers(1, 10_000)),
            "by_text": draw(st.booleans()),
            "chatter": draw(st.booleans()),
            "engine": draw(st.sampled_from(["tectonic", "tectonic", "xelatex", "both"])),
            "maxsize": draw(st.sampled_from([100, 100, 10, 3])),
        },
    }
    if draw(st.integers(0, 2 if pid != "C15" else 4)) != 0:
        nfam = draw(st.integers(1, 12 if pid == "C15" else 5))
        fams = []
        fused = set()
        for _ in range(nfam):
            fams.append(draw(_name(fused)) if (fancy or pid == "C15") else f"g{len(fams)}")
        ordered = draw(st.booleans())
        case["syn"] = {
            "ordered": ordered,
            "fams": fams,
            "leaf_bits": [draw(st.integers(1, 2 ** nfam - 1)) for _ in range(nobj)],
            "extra_bits": [draw(st.integers(0, 2 ** nfam - 1)) for _ in range(n_internal)],
        }
    ncol = draw(st.integers(0, 3)) if pid == "C15" or draw(st.integers(0, 2)) == 0 else 0
    for _ in range(ncol):
        case["colors"][str(draw(st.integers(0, 2 * nobj - 2)))] = draw(st.sampled_from(COLORS))
    for key, choices in PARAM_CHOICES.items():
        if draw(st.integers(0, 3)) == 0:
            case["params"][key] = draw(st.sampled_from(choices))
    if pid == "C15" or draw(st.integers(0, 1)):
        case["params"]["event_label_width"] = draw(
            st.sampled_from([None, 1, 2, 3, 5, 8, 13, 18, 30]))
    ops = []
    for _ in range(draw(st.integers(1, 5 if thorough else 4))):
        kind = draw(st.sampled_from(["compute", "compute", "render", "render", "fault"]
                                    + (["recolour"] if pid == "C15" else [])))
        op = {"op": kind, "orient": draw(st.sampled_from(["V", "H"])),
              "fresh": draw(st.integers(0, 3)) == 0}
        if kind == "recolour":
            # between two drawings the caller gives a node another colour (or none) in place
            op["node"] = draw(st.integers(0, 2 * nobj - 2))
            op["color"] = draw(st.sampled_from(COLORS + [None]))
        if kind == "fault":
            op["fault"] = draw(st.sampled_from(["exit", "absent", "drop", "dup"]))
            op["at"] = draw(st.integers(0, 12))
        elif draw(st.integers(0, 3)) == 0:
            # the same process draws the same history with other parameters in between
            # (anything the library remembers from one call to the next shows here)
            over = {}
            if draw(st.booleans()):
                over["event_label_width"] = draw(st.sampled_from([None, 1, 3, 5, 8, 18, 30]))
            else:
                key = draw(st.sampled_from(sorted(PARAM_CHOICES)))
                over[key] = draw(st.sampled_from(PARAM_CHOICES[key]))
            op["params"] = over
        ops.append(op)
    case["ops"] = ops
    # a reconciliation built through the API from plain Newick: ancestors carry no name
    case["unnamed"] = draw(st.integers(0, 4)) == 0
    return case


def strategy(pid, tier):
    return _case(pid, tier)


# --------------------------------------------------------------------------------------
# building the reconciliation
# --------------------------------------------------------------------------------------
class World:
    def __init__(self, case):
        self.case = case
        self.otree = ref.build(case["object"])
        self.stree = ref.build(case["species"])
        snode = {n.clade: n for n in self.stree.nodes()}
        self.leafmap = {leaf: snode[(case["leaf_species"][leaf.name],)]
                        for leaf in self.otree.leaves()}
        # bottom-up drawn choice among the valid placements of every internal node
        self.m = {}
        picks = iter(case["picks"])
        snodes = list(self.stree.nodes())

        def place(v):
            if not v.children:
                self.m[v] = self.leafmap[v]
                return
            for c in v.children:
                place(c)
            a, b = (self.m[c] for c in v.children)
            cands = [s for s in snodes if ref.event(s, a, b) is not None]
            self.m[v] = cands[next(picks) % len(cands)]

        place(self.otree)
        unit = {"spe": 0, "dup": 0, "hgt": 0, "floss": 1, "sloss": 0}
        self.losses_total, self.ev = ref.rec_cost(self.otree, self.m, unit)
        if self.ev is None:
            raise HarnessError("generated mapping is invalid")
        self.onames = canon.internal_names(case["object"], "O", 1)
        self.snames = canon.internal_names(case["species"], "S", 1)
        # post-order index of object nodes for colour assignment
        self.onodes = list(self.otree.nodes())
        self.colors = {}
        for key, col in case["colors"].items():
            self.colors[self.onodes[int(key) % len(self.onodes)]] = col
        self.lab = None
        if case["syn"] is not None:
            self._label(case["syn"])

    def _label(self, syn):
        fams = syn["fams"]
        nf = len(fams)
        leaves = self.otree.leaves()
        leafset = {}
        for leaf, bits in zip(leaves, syn["leaf_bits"]):
            leafset[leaf] = frozenset(f for i, f in enumerate(fams) if bits >> i & 1)
        lab = {}
        internal = [v for v in self.onodes if v.children]
        extra = dict(zip(internal, syn["extra_bits"]))
        if syn["ordered"]:
            need = ref.compute_need(self.otree, leafset, "ordered", None)
            allf = frozenset(fams)

            def down(v, parent_set):
                if not v.children:
                    lab[v] = leafset[v]
                    return
                if v.parent is None:
                    lab[v] = allf
                else:
                    add = frozenset(f for i, f in enumerate(fams) if extra[v] >> i & 1)
                    lab[v] = need[v] | (add & parent_set)
                for c in v.children:
                    down(c, lab[v])

            down(self.otree, allf)
            self.lab = {v: tuple(f for f in fams if f in s) for v, s in lab.items()}
        else:
            gains = ref.compute_gains(self.otree, leafset)
            need = ref.compute_need(self.otree, leafset, "unordered", gains)

            def down(v, parent_set):
                if not v.children:
                    lab[v] = leafset[v]
                    return
                if v.parent is None:
                    lab[v] = need[v]
                else:
                    add = frozenset(f for i, f in enumerate(fams) if extra[v] >> i & 1)
                    lab[v] = need[v] | (add & (parent_set | gains[v]))
                for c in v.children:
                    down(c, lab[v])

            down(self.otree, frozenset())
            self.lab = {v: tuple(sorted(s)) for v, s in lab.items()}
        del nf

    def name_of(self, v):
        return v.name if not v.children else self.onames[v.clade]

    def sname_of(self, s):
        return s.name if not s.children else self.snames[s.clade]

    def document(self):
        def newick(node, names, colors=None):
            if not node.children:
                text = node.name
            else:
                text = "(" + ",".join(newick(c, names, colors) for c in node.children) + ")" \
                    + names[node.clade]
            if colors and node in colors:
                text += f"[&&NHX:color={colors[node]}]"
            return text

        doc = {
            "input": {
                "object_tree": newick(self.otree, self.onames, self.colors) + ";",
                "species_tree": newick(self.stree, self.snames) + ";",
                "leaf_object_species": dict(self.case["leaf_species"]),
                # unit cost for a full loss, nothing for anything else: the package
                # evaluator's cost of the reconciliation IS its count of full losses
                "costs": {"SPECIATION": 0, "DUPLICATION": 0, "HORIZONTAL_TRANSFER": 0,
                          "FULL_LOSS": 1.0 if self.case.get("unnamed") else 1,
                          "SEGMENTAL_LOSS": 0},
            },
            "object_species": {self.name_of(v): self.sname_of(s) for v, s in self.m.items()},
        }
        if self.lab is not None:
            doc["input"]["leaf_syntenies"] = {
                v.name: list(self.lab[v]) for v in self.otree.leaves()}
            doc["syntenies"] = {self.name_of(v): list(syn) for v, syn in self.lab.items()}
            doc["ordered"] = bool(self.case["syn"]["ordered"])
        return doc

    def parse(self):
        model = _m["model"]
        doc = self.document()
        if "syntenies" in doc:
            rec = model.SuperReconciliationOutput.from_dict(doc)
        else:
            rec = model.ReconciliationOutput.from_dict(doc)
        if self.case.get("unnamed"):
            for node in rec.input.object_tree.traverse():
                if not node.is_leaf():
                    node.name = ""
        return rec

    # ---- R-census -------------------------------------------------------------------
    def census(self):
        nodes = {}
        losses = {}
        for v, s in self.m.items():
            kind = "LEAF" if not v.children else {
                "S": "SPECIATION", "D": "DUPLICATION", "T": "HORIZONTAL_TRANSFER"}[self.ev[v][0]]
            nodes.setdefault(s.clade, []).append((v.clade, kind))
        for v in self.otree.nodes():
            if not v.children:
                continue
            s, e = self.m[v], self.ev[v]
            for i, c in enumerate(v.children):
                if e[0] == "T" and e[1] != i:
                    continue  # the transferred child crosses no vertical edge
                a = self.m[c]
                if a is s:
                    continue
                # speciation: species strictly between a and s; duplication / kept child of a
                # transfer: from the parent of a up to s itself
                x = a.parent
                while x is not None:
                    if x is s:
                        if e[0] != "S":
                            losses[x.clade] = losses.get(x.clade, 0) + 1
                        break
                    losses[x.clade] = losses.get(x.clade, 0) + 1
                    x = x.parent
        return {k: sorted(v) for k, v in nodes.items()}, losses

    def expected_color(self, v):
        while v is not None:
            if v in self.colors:
                return self.colors[v]
            v = v.parent
        return "000000"


# --------------------------------------------------------------------------------------
# observation helpers
# --------------------------------------------------------------------------------------
def make_params(case, orient, op=None):
    rmodel = _m["rmodel"]
    kw = dict(case["params"])
    kw.update((op or {}).get("params") or {})
    kw["orientation"] = (rmodel.Orientation.VERTICAL if orient == "V"
                         else rmodel.Orientation.HORIZONTAL)
    return rmodel.DrawParams(**kw)


def dump_layout(lay):
    """Canonical, order-preserving dump of a Layout for equality / mirror comparison."""
    PseudoGene = _m["rmodel"].PseudoGene
    sidx = None
    oidx = {}
    out = {}
    for sp, sl in lay.items():
        if sidx is None:
            root = sp
            while root.up is not None:
                root = root.up
            sidx = canon.ete_clade_index(root)
        pseudo = {}

        def key(g):
            if isinstance(g, PseudoGene):
                return ("loss", pseudo.setdefault(g, len(pseudo)))
            if g is None:
                return None
            if g not in oidx:
                oidx.update(canon.ete_clade_index(g.get_tree_root()))
            return ("gene", oidx[g])  # by clade: ancestors may be unnamed

        # pseudo genes of the children species may be referenced from here: name them
        # by first appearance inside this species only; foreign ones get their id()-free tag
        branches = []
        for g, b in sl.branches.items():
            branches.append((key(g), b.kind.name, tuple(b.rect), tuple(b.anchor_parent),
                             tuple(b.anchor_left), tuple(b.anchor_right),
                             tuple(b.anchor_child), b.name, b.color,
                             None if b.left is None else ("x",),
                             None if b.right is None else ("x",)))
        anchors = [(key(g), tuple(p)) for g, p in sl.anchors.items()]
        out[sidx[sp]] = {"rect": tuple(sl.rect), "trunk": tuple(sl.trunk),
                         "fork": sl.fork_thickness, "anchors": anchors, "branches": branches}
    return out


def close(a, b):
    if isinstance(a, (int, float)) and isinstance(b, (int, float)):
        return math.isclose(a, b, rel_tol=1e-9, abs_tol=1e-9)
    if isinstance(a, (tuple, list)) and isinstance(b, (tuple, list)):
        return len(a) == len(b) and all(close(x, y) for x, y in zip(a, b))
    if isinstance(a, dict) and isinstance(b, dict):
        return a.keys() == b.keys() and all(close(a[k], b[k]) for k in a)
    return a == b


def mirror(d):
    """x<->y, w<->h on a dumped layout."""
    def rect(r):
        return (r[1], r[0], r[3], r[2])

    def pos(p):
        return (p[1], p[0])

    out = {}
    for k, v in d.items():
        out[k] = {
            "rect": rect(v["rect"]), "trunk": rect(v["trunk"]), "fork": v["fork"],
            "anchors": [(g, pos(p)) for g, p in v["anchors"]],
            "branches": [(g, kind, rect(r), pos(ap), pos(al), pos(ar), pos(ac), name, col, le, ri)
                         for g, kind, r, ap, al, ar, ac, name, col, le, ri in v["branches"]],
        }
    return out


def finite(x):
    if isinstance(x, (int, float)):
        return math.isfinite(x)
    if isinstance(x, (tuple, list)):
        return all(finite(y) for y in x)
    if isinstance(x, dict):
        return all(finite(y) for y in x.values())
    return True


def overlap(a, b, eps=1e-9):
    return (a[0] < b[0] + b[2] - eps and b[0] < a[0] + a[2] - eps
            and a[1] < b[1] + b[3] - eps and b[1] < a[1] + a[3] - eps)


def inside(a, b, eps=1e-7):
    return (a[0] >= b[0] - eps and a[1] >= b[1] - eps and a[0] + a[2] <= b[0] + b[2] + eps
            and a[1] + a[3] <= b[1] + b[3] + eps)


# ---- R-tikz -----------------------------------------------------------------------------
def brace_balance(code):
    depth = 0
    i = 0
    low = 0
    while i < len(code):
        ch = code[i]
        if ch == "\\":
            i += 2
            continue
        if ch == "{":
            depth += 1
        elif ch == "}":
            depth -= 1
            low = min(low, depth)
        i += 1
    return depth, low


NODE_RE = re.compile(
    r"^\\node\[(extant gene|speciation|duplication|horizontal gene transfer|loss)=\{(\w+)\}"
    r"(?:\{(.*)\})?\] at \((-?[\d.e+-]+),(-?[\d.e+-]+)\) \{(.*)\};$")
TRANSFER_RE = re.compile(
    r"^\\path\[transfer branch=\{(\w+)\}\] \((-?[\d.e+-]+),(-?[\d.e+-]+)\) to\[[^\]]*\] "
    r"\((-?[\d.e+-]+),(-?[\d.e+-]+)\);$")
DEFCOLOR_RE = re.compile(r"^\\definecolor\{(\w+)\}\{HTML\}\{(\w+)\}$")


def parse_tikz(code):
    """-> dict(pre, body, colors, nodes, transfers, problems)."""
    problems = []
    lines = code.split("\n")
    begins = [i for i, line in enumerate(lines) if line.strip() == r"\begin{tikzpicture}"]
    ends = [i for i, line in enumerate(lines) if line.strip() == r"\end{tikzpicture}"]
    if len(begins) != 1 or len(ends) != 1 or begins[0] > ends[0]:
        problems.append(f"{len(begins)} begin / {len(ends)} end tikzpicture")
        return {"problems": problems}
    if code.count(r"\begin{tikzpicture}") != 1 or code.count(r"\end{tikzpicture}") != 1:
        problems.append("tikzpicture environment markers inside other text")
    pre = lines[: begins[0]]
    body = lines[begins[0] + 1: ends[0]]
    post = [x for x in lines[ends[0] + 1:] if x.strip()]
    if post:
        problems.append(f"text after the picture: {post[:1]}")
    colors = {}
    for line in pre:
        m = DEFCOLOR_RE.match(line)
        if m:
            colors[m.group(1)] = m.group(2)
    nodes, transfers = [], []
    for line in body:
        if not line.strip() or line.startswith("%"):
            continue
        if not line.rstrip().endswith(";"):
            problems.append(f"unterminated statement: {line[:80]}")
        d, low = brace_balance(line)
        if d != 0 or low < 0:
            problems.append(f"unbalanced statement: {line[:80]}")
        if line.startswith(r"\node"):
            m = NODE_RE.match(line)
            if not m:
                problems.append(f"unparsable node statement: {line[:120]}")
                continue
            style, color, leaf_label, x, y, label = m.groups()
            nodes.append({"style": style, "color": color, "x": float(x), "y": float(y),
                          "label": leaf_label if style == "extant gene" else label})
        elif line.startswith(r"\path[transfer branch"):
            m = TRANSFER_RE.match(line)
            if not m:
                problems.append(f"unparsable transfer statement: {line[:120]}")
                continue
            transfers.append({"color": m.group(1), "from": (float(m.group(2)), float(m.group(3))),
                              "to": (float(m.group(4)), float(m.group(5)))})
        for used in re.findall(r"reccolor\d+", line):
            if used not in colors:
                problems.append(f"colour {used} used but not defined before the picture")
    d, low = brace_balance(code)
    if d != 0 or low < 0:
        problems.append(f"unbalanced braces in the whole document (depth {d}, low {low})")
    return {"problems": problems, "colors": colors, "nodes": nodes, "transfers": transfers}


def tex_escape(text):
    return text.replace("\\", "\\\\").replace("_", "\\_")


def escaped_name_problem(label, name):
    """A displayed name must escape every underscore and backslash of the name (TeX commands
    such as \\textsubscript{...} may be added around its parts) and keep its letters/digits."""
    i = 0
    plain = []
    while i < len(label):
        ch = label[i]
        if ch == "\\":
            nxt = label[i + 1] if i + 1 < len(label) else ""
            if nxt in ("\\", "_"):
                plain.append(nxt)
                i += 2
                continue
            m = re.match(r"\\[A-Za-z]+", label[i:])
            if m:
                i += len(m.group(0))
                continue
            return f"bare backslash at offset {i}"
        if ch == "_":
            return f"unescaped underscore at offset {i}"
        if ch not in "{}":
            plain.append(ch)
        i += 1
    # the characters of the name, except underscores used as separators, appear in order
    it = iter("".join(plain))
    for c in name:
        if c == "_":
            continue
        if not any(x == c for x in it):
            return f"character {c!r} of the name is missing"
    if "".join(plain).count("\\") != name.count("\\"):
        return "backslashes of the name are not all kept (escaped) in the label"
    return None


def match_label(label, words, width):
    """Forward matcher: `label` must be `words` in order, separated by one space or one
    line-break marker (two backslashes).  Returns (problem|None, list of lines)."""
    pos = 0
    lines = [[]]
    for i, w in enumerate(words):
        if not label.startswith(w, pos):
            return f"word {i} ({w!r}) not found at offset {pos} of {label!r}", None
        pos += len(w)
        lines[-1].append(w)
        if i + 1 < len(words):
            if label.startswith("\\\\", pos) and not label.startswith(" ", pos):
                pos += 2
                lines.append([])
            elif label.startswith(" ", pos):
                pos += 1
            else:
                return f"no separator after word {i} at offset {pos} of {label!r}", None
    if pos != len(label):
        return f"trailing text {label[pos:]!r}", None
    texts = [" ".join(ws) for ws in lines]
    if width is not None:
        for ws, text in zip(lines, texts):
            if len(text) > width and len(ws) > 1:
                return f"line {text!r} exceeds width {width}", None
        # independently written greedy wrap
        greedy = 1
        cur = 0
        for w in words:
            if cur == 0:
                cur = len(w)
            elif cur + 1 + len(w) <= width:
                cur += 1 + len(w)
            else:
                greedy += 1
                cur = len(w)
        if len(lines) > greedy:
            return f"{len(lines)} lines, greedy wrapping needs {greedy}", None
    elif len(lines) != 1:
        return "label wrapped although wrapping is disabled", None
    return None, texts


# --------------------------------------------------------------------------------------
# executor
# --------------------------------------------------------------------------------------
def execute(case, focus=None):
    run = Run(focus)
    ORACLE.begin(0)
    layout, tikz = _m["layout"], _m["tikz"]
    world = World(case)
    exp_nodes, exp_losses = world.census()
    rec = world.parse()
    layouts = {}  # (orientation, parameter overrides) -> first dumped layout
    if world.colors:
        run.probe("coloured")
        if any(any(a in world.colors for a in _ancestors(v)) for v in world.colors):
            run.probe("nested_colour")
    if any(e[0] == "T" for e in world.ev.values()):
        run.probe("transfer")
    if exp_losses:
        run.probe("losses")
    if world.lab is not None:
        run.probe("labelled")
    if case.get("unnamed"):
        run.probe("unnamed_ancestors")
        run.nontrivial = True
    n_computes = 0
    for idx, op in enumerate(case["ops"]):
        if op["op"] == "recolour":
            v = world.onodes[op["node"] % len(world.onodes)]
            oidx_rec = canon.ete_clade_index(rec.input.object_tree)
            node = next(n for n, c in oidx_rec.items() if c == v.clade)
            if op["color"] is None:
                world.colors.pop(v, None)
                if "color" in node.features:
                    node.del_feature("color")
            else:
                world.colors[v] = op["color"]
                node.add_feature("color", op["color"])
            run.probe("recoloured_in_place")
            run.nontrivial = True
            run.event(idx, "recolour", op["node"], op["color"])
            continue
        orient = op["orient"]
        params = make_params(case, orient, op)
        over = op.get("params") or {}
        okey = repr(sorted(over.items(), key=repr))
        width = {**case["params"], **over}.get("event_label_width", 18)
        diameter = {**case["params"], **over}.get("extant_gene_diameter", 3)
        if over:
            run.probe("params_changed_within_history")
            run.nontrivial = True
        target = world.parse() if op["fresh"] else rec
        if op["fresh"]:
            run.probe("fresh_parse")
        PEER.configure(case["peer"])
        PEER.transpose = orient == "H"
        where = f"op {idx} {op['op']} {orient}"
        if op["op"] == "fault":
            PEER.fault = None if op["fault"] == "absent" else op["fault"]
            PEER.fault_at = op["at"]
            if op["fault"] == "absent":
                PEER.engine = "none"
            fired_before = dict(PEER.fired)
            try:
                lay = layout.compute(target, params)
            except Exception as exc:  # noqa: BLE001 - the peer failed: raising is legitimate
                run.fault("peer_" + op["fault"])
                run.event(idx, "fault", op["fault"], type(exc).__name__)
                continue
            if PEER.fired != fired_before:
                run.fault("peer_" + op["fault"])
                # sizes are wrong but the census is not about sizes
                _check_census(run, world, lay, exp_nodes, exp_losses, where, target)
            run.event(idx, "fault", op["fault"], "survived")
            continue
        try:
            lay = layout.compute(target, params)
        except Exception as exc:  # noqa: BLE001
            run.check(False, ("C13", "C14", "C15"), "C14.compute-raised",
                      f"{where}: layout.compute raised {type(exc).__name__}: {exc!s:.300}")
            continue
        n_computes += 1
        if case["peer"]["chatter"]:
            run.probe("peer_chatter")
        run.probe("engine_" + case["peer"]["engine"])
        _check_census(run, world, lay, exp_nodes, exp_losses, where, target)
        dumped = dump_layout(lay)
        _check_geometry(run, world, lay, dumped, where, orient)
        if (orient, okey) in layouts:
            run.probe("computed_twice")
            run.nontrivial = True
            run.check(close(dumped, layouts[orient, okey]), ("C14",), "C14.twice-differs",
                      lambda: f"{where}: layout differs from the one computed earlier in this "
                              f"history for the same reconciliation and parameters "
                              f"({_first_diff(dumped, layouts[orient, okey])})")
        else:
            layouts[orient, okey] = dumped
        other = ("H" if orient == "V" else "V", okey)
        if other in layouts:
            run.probe("mirror_compared")
            run.nontrivial = True
            run.check(close(mirror(dumped), layouts[other]), ("C14",), "C14.not-mirror",
                      lambda: f"{where}: {orient} layout is not the mirror image of the {other[0]} "
                              f"layout computed with transposed node sizes "
                              f"({_first_diff(mirror(dumped), layouts[other])})")
        _check_layout_labels(run, world, lay, width, where)
        if op["op"] == "render":
            try:
                code = tikz.render(target, lay, params)
            except Exception as exc:  # noqa: BLE001
                run.check(False, ("C14", "C13", "C15"), "C14.render-raised",
                          f"{where}: tikz.render raised {type(exc).__name__}: {exc!s:.300} "
                          f"(missing anchor?)")
                continue
            _check_tikz(run, world, lay, code, width, where, orient, diameter)
            run.event(idx, "render", orient, hashlib.sha256(code.encode()).hexdigest())
        else:
            run.event(idx, "compute", orient, hashlib.sha256(repr(dumped).encode()).hexdigest())
    if n_computes > 1:
        run.nontrivial = True
    if case["peer"]["chatter"] or case["params"] or world.colors or world.lab is not None:
        run.nontrivial = True
    return run


def _ancestors(v):
    v = v.parent
    while v is not None:
        yield v
        v = v.parent


def _first_diff(a, b):
    for k in a:
        if k not in b:
            return f"species {k} missing"
        for f in a[k]:
            if not close(a[k][f], b[k][f]):
                return f"species {k} field {f}: {str(a[k][f])[:200]} vs {str(b[k][f])[:200]}"
    return "?"


def _check_census(run, world, lay, exp_nodes, exp_losses, where, rec):
    PseudoGene = _m["rmodel"].PseudoGene
    sidx = canon.ete_clade_index(next(iter(lay)).get_tree_root())
    oidx = None
    got_nodes, got_losses, transfers = {}, {}, []
    for sp, sl in lay.items():
        for g, b in sl.branches.items():
            if isinstance(g, PseudoGene):
                got_losses[sidx[sp]] = got_losses.get(sidx[sp], 0) + 1
                run.check(b.kind.name == "FULL_LOSS" and (b.left is None) != (b.right is None),
                          ("C13",), "C13.loss-branch-malformed",
                          lambda: f"{where}: pseudo-gene branch of kind {b.kind}")
            else:
                if oidx is None:
                    oidx = canon.ete_clade_index(g.get_tree_root())
                got_nodes.setdefault(sidx[sp], []).append((oidx[g], b.kind.name))
                if b.kind.name == "HORIZONTAL_TRANSFER":
                    transfers.append((oidx[g], None if b.right is None or
                                      isinstance(b.right, PseudoGene) else oidx[b.right]))
    got_nodes = {k: sorted(v) for k, v in got_nodes.items()}
    run.check(got_nodes == exp_nodes, ("C13",), "C13.event-census",
              lambda: f"{where}: event nodes per species {got_nodes} differ from the recount "
                      f"{exp_nodes}; mapping {world.document()['object_species']}")
    # "one loss marker per full loss counted by the evaluator": the package evaluator itself,
    # asked under unit loss cost (see World.document), not only our recount
    counted = rec.reconciliation_cost() if hasattr(rec, "reconciliation_cost") else rec.cost()
    shown = sum(got_losses.values())
    run.check(counted == shown, ("C13",), "C13.loss-markers-vs-evaluator",
              lambda: f"{where}: the layout shows {shown} full-loss markers, the package "
                      f"evaluator counts {counted} full losses (independent recount "
                      f"{sum(exp_losses.values())}); mapping "
                      f"{world.document()['object_species']} on "
                      f"{world.document()['input']['species_tree']}")
    run.check(got_losses == exp_losses, ("C13",), "C13.loss-census",
              lambda: f"{where}: loss markers per species {got_losses}, evaluator counts "
                      f"{exp_losses}; mapping {world.document()['object_species']} on "
                      f"{world.document()['input']['species_tree']}")
    exp_transfers = sorted((v.clade, v.children[1 - e[1]].clade)
                           for v, e in world.ev.items() if e[0] == "T")
    run.check(sorted(transfers) == exp_transfers, ("C13",), "C13.transfer-target",
              lambda: f"{where}: transfer branches (node, transferred child) {sorted(transfers)} "
                      f"expected {exp_transfers}")


def _check_geometry(run, world, lay, dumped, where, orient):
    run.check(finite(dumped), ("C14",), "C14.non-finite", f"{where}: non-finite coordinate")
    for sp, sl in lay.items():
        if not sp.is_leaf():
            a, b = (tuple(lay[c].rect) for c in sp.children)
            run.check(not overlap(a, b), ("C14",), "C14.siblings-overlap",
                      lambda: f"{where}: sibling species boxes overlap: {a} {b}")
            run.check(inside(a, tuple(sl.rect)) and inside(b, tuple(sl.rect)), ("C14",),
                      "C14.child-outside-parent",
                      lambda: f"{where}: child box {a} / {b} outside parent {tuple(sl.rect)}")
    # "placed in the species it is mapped to", geometrically: the trunk of a species contains
    # its branching nodes (the layout's own documented invariant); speciations and loss
    # markers sit in the fork below it, so containment is demanded across the trunk only
    vertical = orient == "V"
    for sp, sl in lay.items():
        t = sl.trunk
        lo, hi = (t.x, t.x + t.w) if vertical else (t.y, t.y + t.h)
        for g, b in sl.branches.items():
            r = b.rect
            a0, a1 = (r.x, r.x + r.w) if vertical else (r.y, r.y + r.h)
            run.check(a0 >= lo - 1e-6 and a1 <= hi + 1e-6, ("C13",),
                      "C13.node-box-outside-species-trunk",
                      lambda: f"{where}: the box of a {b.kind.name} node spans [{a0}, {a1}] across "
                              f"the trunk of the species it belongs to, which spans [{lo}, {hi}]: "
                              f"it is laid out partly outside its species")
    # anchors are where a lineage enters the trunk of the species it lives in (the point a
    # transfer arrow or a parent's connector ends at): on the entry edge of that trunk
    for sp, sl in lay.items():
        t = sl.trunk
        for g, p in sl.anchors.items():
            on_edge = (abs(p.y - t.y) < 1e-6 and t.x - 1e-6 <= p.x <= t.x + t.w + 1e-6
                       if vertical else
                       abs(p.x - t.x) < 1e-6 and t.y - 1e-6 <= p.y <= t.y + t.h + 1e-6)
            run.check(on_edge, ("C13",), "C13.anchor-off-trunk-entry",
                      lambda: f"{where}: an anchor at {tuple(p)} is not on the entry edge of the "
                              f"trunk {tuple(t)} of its species: arrows and connectors that end "
                              f"there miss the lineage")
    # "This rect includes the fork and the trunk" (render/model.py): a trunk that leaves the
    # box of its own subtree is what makes it run into a cousin's trunk
    for sp, sl in lay.items():
        run.check(inside(tuple(sl.trunk), tuple(sl.rect)), ("C14",), "C14.trunk-outside-own-box",
                  lambda: f"{where}: the trunk {tuple(sl.trunk)} of a species leaves the box "
                          f"{tuple(sl.rect)} of its own subtree")
    trunks = [(sp.name, tuple(sl.trunk)) for sp, sl in lay.items()
              if sl.trunk.w > 0 and sl.trunk.h > 0]
    for i in range(len(trunks)):
        for j in range(i):
            run.check(not overlap(trunks[i][1], trunks[j][1]), ("C14",), "C14.trunks-overlap",
                      lambda: f"{where}: trunks overlap: {trunks[i]} {trunks[j]}")


def _expected_words(world, v):
    return ", ".join(tex_escape(f) for f in world.lab[v]).split(" ")


def _check_layout_labels(run, world, lay, width, where):
    """Branch names carry the labels (C15) and the colours (C15) at the layout level."""
    PseudoGene = _m["rmodel"].PseudoGene
    by_clade = {v.clade: v for v in world.otree.nodes()}
    oidx = None
    lineage = _lineage_of_losses(world, lay) if world.colors else {}
    for sl in lay.values():
        for g, b in sl.branches.items():
            if isinstance(g, PseudoGene):
                # a loss on a branch whose two ends have the same colour lies inside that
                # coloured (or uncoloured) subtree
                want = _loss_colour(world, lineage[g]) if g in lineage else None
                if want is not None:
                    run.probe("loss_colour_checked")
                    run.check(b.color == want, ("C15",), "C15.colour-scope-loss",
                              lambda: f"{where}: a loss on the branch down to "
                                      f"{world.name_of(lineage[g])} has colour {b.color} although "
                                      f"both ends of that branch have colour {want}; colours "
                                      f"{ {world.name_of(k): c for k, c in world.colors.items()} } "
                                      f"on {world.document()['input']['object_tree']}")
                continue
            if oidx is None:
                oidx = canon.ete_clade_index(g.get_tree_root())
            v = by_clade[oidx[g]]
            _check_label(run, world, v, b.name, width, where)
            run.check(b.color == world.expected_color(v), ("C15",), "C15.colour-scope",
                      lambda: f"{where}: node {world.name_of(v)} has colour {b.color}, nearest "
                              f"coloured ancestor-or-self says {world.expected_color(v)}; colours "
                              f"{ {world.name_of(k): c for k, c in world.colors.items()} } on "
                              f"{world.document()['input']['object_tree']}")


def _lineage_of_losses(world, lay):
    """pseudo gene -> reference node of the child lineage its loss chain leads down to."""
    PseudoGene = _m["rmodel"].PseudoGene
    branch_of = {g: b for sl in lay.values() for g, b in sl.branches.items()}
    by_clade = {v.clade: v for v in world.otree.nodes()}
    oidx = None
    out = {}
    for g in branch_of:
        if not isinstance(g, PseudoGene):
            continue
        cur = g
        for _ in range(len(branch_of) + 1):
            if not isinstance(cur, PseudoGene):
                break
            b = branch_of.get(cur)
            cur = None if b is None else (b.left if b.left is not None else b.right)
        if cur is None or isinstance(cur, PseudoGene):
            continue
        if oidx is None:
            oidx = canon.ete_clade_index(cur.get_tree_root())
        out[g] = by_clade[oidx[cur]]
    return out


def _loss_colour(world, child):
    """Colour a loss on the branch leading down to `child` must have, or None when the
    statement leaves it open (the branch joins two differently coloured nodes)."""
    if child.parent is None:
        return None
    low, high = world.expected_color(child), world.expected_color(child.parent)
    return low if low == high else None


def _check_label(run, world, v, label, width, where):
    if world.lab is None:
        if not v.children:
            problem = escaped_name_problem(label, v.name)
            run.check(problem is None, ("C15",), "C15.leaf-name",
                      lambda: f"{where}: leaf {v.name!r} labelled {label!r}: {problem}")
        else:
            run.check(label == "", ("C15",), "C15.unexpected-label",
                      lambda: f"{where}: unlabelled node {world.name_of(v)} shows {label!r}")
        return
    if not world.lab[v]:
        run.check(label == "", ("C15",), "C15.unexpected-label",
                  lambda: f"{where}: node {world.name_of(v)} holds no family but shows {label!r}")
        return
    if label == "" and v.children and v.parent is not None:
        run.check(world.lab[v] == world.lab[v.parent], ("C15",), "C15.label-omitted",
                  lambda: f"{where}: label of {world.name_of(v)} omitted although "
                          f"{world.lab[v]} differs from its parent's {world.lab[v.parent]}")
        return
    words = _expected_words(world, v)
    problem, lines = match_label(label, words, width)
    run.check(problem is None, ("C15",), "C15.label-unfaithful",
              lambda: f"{where}: label {label!r} of node {world.name_of(v)} with families "
                      f"{world.lab[v]} (width {width}): {problem}")
    if lines and len(lines) > 1:
        run.probe("wrapped_label")


def _check_tikz(run, world, lay, code, width, where, orient, diameter):
    PseudoGene = _m["rmodel"].PseudoGene
    doc = parse_tikz(code)
    run.check(not doc["problems"], ("C15",), "C15.malformed-tikz",
              lambda: f"{where}: {doc['problems'][:3]}")
    if doc["problems"] and "nodes" not in doc:
        return
    # expected event nodes from the layout (positions) and from the reference (kinds/colours)
    style_of = {"LEAF": "extant gene", "SPECIATION": "speciation", "DUPLICATION": "duplication",
                "HORIZONTAL_TRANSFER": "horizontal gene transfer", "FULL_LOSS": "loss"}
    counts = {}
    for n in doc["nodes"]:
        counts[n["style"]] = counts.get(n["style"], 0) + 1
    exp_counts = {"extant gene": len(world.otree.leaves())}
    for e in world.ev.values():
        k = style_of[{"S": "SPECIATION", "D": "DUPLICATION", "T": "HORIZONTAL_TRANSFER"}[e[0]]]
        exp_counts[k] = exp_counts.get(k, 0) + 1
    if world.losses_total:
        exp_counts["loss"] = world.losses_total
    run.check(counts == exp_counts, ("C13",), "C13.drawn-node-count",
              lambda: f"{where}: drawn nodes {counts}, expected {exp_counts}")
    n_transfers = sum(1 for e in world.ev.values() if e[0] == "T")
    run.check(len(doc["transfers"]) == n_transfers, ("C13",), "C13.drawn-transfer-count",
              lambda: f"{where}: {len(doc['transfers'])} transfer arrows, {n_transfers} transfers")
    # every drawn event node sits at the centre of a branch rectangle of the species its
    # object node is mapped to, with the right style
    by_clade = {v.clade: v for v in world.otree.nodes()}
    sidx = canon.ete_clade_index(next(iter(lay)).get_tree_root())
    remaining = list(doc["nodes"])
    oidx = None
    for sp, sl in lay.items():
        for g, b in sl.branches.items():
            if isinstance(g, PseudoGene):
                continue
            if oidx is None:
                oidx = canon.ete_clade_index(g.get_tree_root())
            v = by_clade[oidx[g]]
            kind = "LEAF" if not v.children else {
                "S": "SPECIATION", "D": "DUPLICATION", "T": "HORIZONTAL_TRANSFER"}[world.ev[v][0]]
            box = tuple(sl.rect)
            hit = None
            r = b.rect
            cx, cy = r.x + r.w / 2, r.y + r.h / 2
            reach = 2e-3
            if kind == "LEAF":
                # extant genes are drawn at the start of their box along the growth axis
                cx, cy = (cx, r.y + diameter / 2) if orient == "V" else (r.x + diameter / 2, cy)
            best = None
            for n in remaining:
                if n["style"] != style_of[kind]:
                    continue
                dist = math.hypot(n["x"] - cx, n["y"] - cy)
                if dist <= reach and (best is None or dist < best):
                    best, hit = dist, n
            run.check(hit is not None, ("C13",), "C13.drawn-node-missing",
                      lambda: f"{where}: no {style_of[kind]} node drawn at the branch box of "
                              f"{world.name_of(v)} in species {sidx[sp]}")
            if hit is None:
                continue
            remaining.remove(hit)
            # "placed in the species it is mapped to" is decided on the container (the branch
            # belongs to layout[species] and is drawn at that branch's box); pixel containment
            # in the species outline is not part of the statement - observed only
            run.check(world.m[v].clade == sidx[sp], ("C13",), "C13.drawn-node-wrong-species",
                      lambda: f"{where}: event node of {world.name_of(v)} drawn in species "
                              f"{sidx[sp]}, mapped to {world.m[v].clade}")
            if kind != "LEAF" and not (box[0] - 1e-3 <= hit["x"] <= box[0] + box[2] + 1e-3 and
                                       box[1] - 1e-3 <= hit["y"] <= box[1] + box[3] + 1e-3):
                run.probe("event_node_outside_species_box")
            html = doc["colors"].get(hit["color"])
            run.check(html == world.expected_color(v), ("C15",), "C15.colour-scope",
                      lambda: f"{where}: drawn node of {world.name_of(v)} uses {hit['color']}="
                              f"{html}, expected {world.expected_color(v)}")
            label = hit["label"] or ""
            if kind == "HORIZONTAL_TRANSFER" and label == r"\phantom{-}":
                label = ""
            _check_label(run, world, v, label, width, where)
    # every loss marker is drawn in the species where the loss occurs, on the side of the child
    # lineage in which the object is lost (not on the side that keeps it)
    loss_nodes = [n for n in doc["nodes"] if n["style"] == "loss"]
    lineage = _lineage_of_losses(world, lay)
    for sp, sl in lay.items():
        for g, b in sl.branches.items():
            if not isinstance(g, PseudoGene) or sp.is_leaf():
                continue
            lost, kept = ((sp.children[1], sp.children[0]) if b.right is None
                          else (sp.children[0], sp.children[1]))
            r, t = b.rect, sl.trunk
            seq = r.y + r.h / 2 if orient == "V" else r.x + r.w / 2
            lo, hi = (t.x, t.x + t.w) if orient == "V" else (t.y, t.y + t.h)
            hit = None
            for n in loss_nodes:
                n_seq, n_across = (n["y"], n["x"]) if orient == "V" else (n["x"], n["y"])
                if abs(n_seq - seq) <= 2e-3 and lo - 2e-3 <= n_across <= hi + 2e-3:
                    hit = (n, n_across)
                    break
            run.check(hit is not None, ("C13",), "C13.loss-marker-missing",
                      lambda: f"{where}: no loss marker drawn on the trunk of species "
                              f"{sidx[sp]} for one of its losses")
            if hit is None:
                continue
            loss_nodes.remove(hit[0])
            child = lineage.get(g)
            want = _loss_colour(world, child) if child is not None else None
            if want is not None and world.colors:
                html = doc["colors"].get(hit[0]["color"])
                run.check(html == want, ("C15",), "C15.colour-scope-loss",
                          lambda: f"{where}: the loss marker in species {sidx[sp]} on the branch "
                                  f"down to {world.name_of(child)} is drawn with "
                                  f"{hit[0]['color']}={html}, both ends of that branch have {want}")

            def start(species):
                rr = lay[species].rect
                return rr.x if orient == "V" else rr.y

            # the child lineage laid out first along the across axis is on the low side of
            # the trunk, the other one on the high side
            mid = (lo + hi) / 2
            lost_is_low = start(lost) < start(kept)
            run.check((hit[1] <= mid + 2e-3) if lost_is_low else (hit[1] >= mid - 2e-3),
                      ("C13",),
                      "C13.loss-marker-wrong-side",
                      lambda: f"{where}: in species {sidx[sp]} the object is lost towards "
                              f"{sidx[lost]} but the loss marker at {hit[1]} is drawn on the "
                              f"side of {sidx[kept]}, which keeps it")
            run.probe("loss_side_checked")
    # transfer arrows end at the anchor of the transferred child in the species it lives in
    ends = sorted((round(t["to"][0], 3), round(t["to"][1], 3)) for t in doc["transfers"])
    exp_ends = []
    by_name = {}
    for sp, sl in lay.items():
        for g, p in sl.anchors.items():
            if not isinstance(g, PseudoGene):
                by_name[(sidx[sp], canon.ete_clade_index(g.get_tree_root())[g])] = p
    for v, e in world.ev.items():
        if e[0] == "T":
            child = v.children[1 - e[1]]
            p = by_name.get((world.m[child].clade, child.clade))
            run.check(p is not None, ("C13", "C14"), "C13.transfer-anchor-missing",
                      lambda: f"{where}: transferred child {world.name_of(child)} has no anchor "
                              f"in its species")
            if p is not None:
                exp_ends.append((round(p.x, 3), round(p.y, 3)))
    run.check(close(ends, sorted(exp_ends)) or
              all(any(abs(a[0] - b[0]) < 2e-3 and abs(a[1] - b[1]) < 2e-3 for b in exp_ends)
                  for a in ends), ("C13",), "C13.transfer-arrow-target",
              lambda: f"{where}: transfer arrows end at {ends}, transferred children are "
                      f"anchored at {sorted(exp_ends)}")


def describe(pid):
    return {
        "rule": "Hypothesis-drawn case = species tree (1-5 (6) leaves, plain or hostile names "
                "over letters/digits/underscore/backslash) + object tree (1-6 (10) leaves) + a "
                "valid mapping chosen node by node among all valid placements (transfers, "
                "duplications above the LCA, losses) + optional ordered/unordered labelling on "
                "1-12 families + optional (nested) colours + ancestors named or (one case in five) "
                "unnamed as in an object built through the API + perturbed DrawParams and label "
                "width + a simulated TeX peer (engine tectonic/xelatex/both, per-index or "
                "per-text sizes 1-100/10/3, chatter lines) + history of 1-4 (5) operations "
                "(compute V/H, render V/H, on the same object or a fresh parse, a quarter of them "
                "with a changed label width or drawing parameter, for C15 also a node re-coloured in "
                "place between two drawings, peer faults: "
                "non-zero exit, engine absent, dropped / duplicated measurement line). "
                "Non-trivial: several computes, a fault fired, chatter, perturbed parameters, "
                "colours or labels present; distinct = distinct case digest.",
        "real": ["superrec2.render.layout, render.tikz, render.model, utils.tex (measure, "
                 "tex_compile engine selection, stdout parsing), utils.text, model.synteny, "
                 "model.reconciliation (from_dict, node_event) compiled from the working tree",
                 "ete3", "textwrap"],
        "stub": ["TeX engine child process (simulated peer at subprocess.run / shutil.which / "
                 "tempfile / open inside utils.tex)", "iteration order of sets"],
        "assumptions": [
            "object-tree leaf names follow the documented <species>_<id> convention",
            "node sizes answered by the peer are positive; under peer faults only the census "
            "(C13) is still demanded, never geometry",
            "nothing is learnt about real TeX output",
        ],
        "probes_expected": {
            "C13": ["transfer", "losses", "labelled", "unnamed_ancestors", "peer_exit", "peer_drop", "peer_dup",
                    "peer_absent", "engine_xelatex", "engine_tectonic"],
            "C14": ["mirror_compared", "computed_twice", "fresh_parse", "transfer", "losses",
                    "peer_chatter", "params_changed_within_history"],
            "C15": ["coloured", "nested_colour", "labelled", "wrapped_label", "fresh_parse",
                    "loss_colour_checked", "recoloured_in_place",
                    "params_changed_within_history"],
        }[pid],
    }
