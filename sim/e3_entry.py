"""Engine E3 (dp-entry): histories of offers / reads / combines on dynamic-programming
entries and table cells, against the list-of-offers reference model R-entry.  Serves C16.

Simulated dimensions: D1 (the history itself: batches, interleaved targets sharing one
table) and D3 (iteration order of the retained-tag sets on every read and combine).
"""
from hypothesis import strategies as st

from . import kernel
from .kernel import ORACLE, Run

NAME = "E3-dp-entry"
INF = float("inf")

_mods = {}


def prepare():
    import superrec2.utils.dynamic_programming as dp
    from infinity import inf

    _mods["dp"] = dp
    _mods["inf"] = inf


# --------------------------------------------------------------------------------------
# case strategy
# --------------------------------------------------------------------------------------
VALUES = [0, 1, 2, "inf"]
TAGS = [None, "a", "b", "c"]


@st.composite
def _case(draw, tier):
    merge = draw(st.sampled_from(["MIN", "MAX"]))
    ret = draw(st.sampled_from(["ALL", "ANY", "NONE"]))
    kind = draw(st.sampled_from(["entry", "table", "table"]))
    case = {"engine": NAME, "merge": merge, "ret": ret, "kind": kind}
    if kind == "table":
        ndim = draw(st.integers(1, 3))
        dims = [draw(st.sampled_from(["L2", "L3", "D"])) for _ in range(ndim)]
        case["dims"] = dims
        ntargets = draw(st.integers(1, 3))
        keys = []
        for _ in range(ntargets):
            key = []
            for d in dims:
                if d[0] == "L":
                    key.append(draw(st.integers(0, int(d[1:]) - 1)))
                else:
                    key.append(draw(st.sampled_from(["x", "y", 0, 7])))
            keys.append(key)
        case["keys"] = keys
    else:
        ntargets = draw(st.integers(1, 3))
        init = []
        for _ in range(ntargets):
            how = draw(st.sampled_from(["policies", "policies", "table.entry", "prefilled",
                                        "table.prefilled"]))
            if how.endswith("prefilled"):
                # an entry created with an initial value and tags: the model sees these as
                # offers made before the history starts (NONE: no tag, ANY: at most one)
                ntags = {"ALL": 3, "ANY": 1, "NONE": 0}[ret]
                tags = draw(st.lists(st.sampled_from(TAGS[1:]), max_size=ntags, unique=True))
                how = [how, draw(st.sampled_from(VALUES[:3])), tags]
            init.append(how)
        case["init"] = init
    nvals = 3 if draw(st.integers(0, 3)) else 4  # infinite offers in a quarter of the runs
    # value tokens 0 < 1 < 2 stand for small integers, or for floats one ulp apart
    case["floats"] = draw(st.integers(0, 3)) == 0
    max_ops = 12 if tier == "thorough" else 8
    ops = []
    for _ in range(draw(st.integers(1, max_ops))):
        what = draw(st.sampled_from(["offer", "offer", "offer", "offer", "read", "combine",
                                     "unwritten", "clone"]))
        if what == "offer":
            cands = draw(
                st.lists(
                    st.tuples(st.sampled_from(VALUES[:nvals]), st.sampled_from(TAGS)).map(list),
                    min_size=1,
                    max_size=4,
                )
            )
            ops.append({
                "op": "offer",
                "t": draw(st.integers(0, 2)),
                "cands": cands,
                "via": draw(st.sampled_from(["update", "update", "setitem", "held"])),
            })
        elif what == "read":
            ops.append({"op": "read", "order": draw(st.integers(0, 9))})
        elif what == "combine":
            ops.append({
                "op": "combine",
                "a": draw(st.integers(0, 2)),
                "b": draw(st.integers(0, 2)),
                "w": draw(st.lists(st.integers(0, 2), min_size=16, max_size=16)),
                "order": draw(st.integers(0, 9)),
            })
        elif what == "clone":
            ops.append({"op": "clone", "src": draw(st.integers(0, 2)),
                        "via": draw(st.sampled_from(["Entry", "table.entry"]))})
        else:
            ops.append({"op": "unwritten", "order": draw(st.integers(0, 3))})
    case["ops"] = ops
    return case


def strategy(pid, tier):
    return _case(tier)


# --------------------------------------------------------------------------------------
# executor
# --------------------------------------------------------------------------------------
FLOATS = [0.3, 0.1 + 0.2, 0.6000000000000001]  # 0.3 < 0.30000000000000004 < 0.6000000000000001


def _val(v, merge, floats=False):
    """The token "inf" is the worst possible value under the merge policy."""
    if v == "inf":
        return _mods["inf"] if merge == "MIN" else -_mods["inf"]
    return FLOATS[v] if floats else v


def _better(merge, a, b):
    return a < b if merge == "MIN" else a > b


def _opt(merge, offers):
    """R-entry: optimum of all offers and the tags of the offers achieving it."""
    worst = INF if merge == "MIN" else -INF
    best = worst
    for v, _ in offers:
        v = worst if v == "inf" else v
        if _better(merge, v, best):
            best = v
    tags = set()
    for v, t in offers:
        v = worst if v == "inf" else v
        if v == best and t is not None:
            tags.add(t)
    return best, tags


def _fnum(x):
    """Plain float/int view of a value that may be an `infinity.Infinity`."""
    if x == _mods["inf"]:
        return INF
    if x == -_mods["inf"]:
        return -INF
    return x


def _check_target(run, case, label, entry, offers, where):
    merge, ret = case["merge"], case["ret"]
    best, tags = _opt(merge, offers)
    value = _fnum(entry.value())
    run.check(value == best, ("C16",), "C16.value",
              lambda: f"{where}: {label} value {value!r} but the optimum of the offers "
                      f"{offers} is {best!r}")
    infos = list(entry.infos())
    run.check(len(infos) == len(set(infos)) == len(entry), ("C16",), "C16.len",
              lambda: f"{where}: {label} len()={len(entry)} infos={infos}")
    iterated = [(c.value, c.info) for c in entry]
    run.check(sorted(map(repr, (i for _, i in iterated))) == sorted(map(repr, infos))
              and all(_fnum(v) == value for v, _ in iterated), ("C16",), "C16.iter",
              lambda: f"{where}: {label} iteration {iterated} disagrees with value/infos "
                      f"{value}/{infos}")
    run.check(entry.is_infinite() == (value in (INF, -INF)), ("C16",), "C16.is_infinite",
              lambda: f"{where}: {label} is_infinite()={entry.is_infinite()} value={value}")
    run.check(set(infos) <= tags, ("C16",), "C16.tags-subset",
              lambda: f"{where}: {label} retains tags {sorted(infos)} but only {sorted(tags)} "
                      f"belong to candidates achieving {best} (offers {offers})")
    finite = best not in (INF, -INF)
    standalone = case["kind"] == "entry"
    if ret == "NONE":
        run.check(not infos, ("C16",), "C16.none-keeps-tags",
                  lambda: f"{where}: {label} policy NONE retains {infos}")
    elif finite or standalone:
        # an infinite optimum on a table cell is "never written": tags may be dropped
        if ret == "ALL":
            run.check(set(infos) == tags, ("C16",), "C16.all-tags",
                      lambda: f"{where}: {label} policy ALL retains {sorted(infos)}, the tags "
                              f"of optimal candidates are {sorted(tags)} (offers {offers})")
        else:
            run.check(len(infos) == (1 if tags else 0), ("C16",), "C16.any-one",
                      lambda: f"{where}: {label} policy ANY retains {sorted(infos)}, optimal "
                              f"tags {sorted(tags)} (offers {offers})")
    single = entry.info()
    run.check((single is None and not infos) or single in infos, ("C16",), "C16.info",
              lambda: f"{where}: {label} info()={single!r} infos={infos}")
    return value, sorted(map(repr, infos))


def execute(case, focus=None):
    dp = _mods["dp"]
    run = Run(focus)
    ORACLE.begin(0)
    merge = dp.MergePolicy[case["merge"]]
    ret = dp.RetentionPolicy[case["ret"]]
    table = None
    floats = bool(case.get("floats"))

    def tok(v):
        return v if v == "inf" else (FLOATS[v] if floats else v)

    if case["kind"] == "table":
        dims = tuple(
            dp.ListDimension(int(d[1:])) if d[0] == "L" else dp.DictDimension()
            for d in case["dims"]
        )
        table = dp.Table(dims, merge, ret)
        keys = [tuple(k) for k in case["keys"]]
        ntargets = len(keys)

        def cell(key):
            node = table
            for k in key:
                node = node[k]
            return node

        # two targets with equal keys are one cell: they share a model
        models = {}
        offers = [models.setdefault(k, []) for k in keys]
        getters = [lambda k=k: cell(k) for k in keys]
        # handles obtained before the first write and kept by the caller for the whole
        # history: they must keep showing the cell, whoever writes it and through which handle
        held = [cell(k) for k in keys]
    else:
        helper = dp.Table((dp.DictDimension(),), merge, ret)
        entries, offers = [], []
        for how in case["init"]:
            if how == "policies":
                entries.append(dp.Entry(merge, ret))
                offers.append([])
            elif how == "table.entry":
                entries.append(helper.entry())
                offers.append([])
            else:
                kind_, value, tags = how
                value = tok(value)
                if kind_ == "prefilled":
                    entries.append(dp.Entry(value, list(tags), merge, ret))
                else:
                    entries.append(helper.entry(value, list(tags)))
                offers.append([(value, t) for t in tags] or [(value, None)])
                run.probe("prefilled_entry")
        ntargets = len(entries)
        getters = [lambda e=e: e for e in entries]
        held = []

    def check_all(where):
        obs = []
        for i in range(len(getters)):
            obs.append(_check_target(run, case, f"target{i}", getters[i](), offers[i], where))
        for i, handle in enumerate(held):
            seen = _check_target(run, case, f"target{i} through the handle obtained before the "
                                 f"history", handle, offers[i], where)
            run.check(ret != dp.RetentionPolicy.ALL or seen == obs[i], ("C16",),
                      "C16.handles-disagree",
                      lambda: f"{where}: target{i} reads {obs[i]} through a fresh handle and "
                              f"{seen} through the one obtained earlier")
        return obs

    for idx, op in enumerate(case["ops"]):
        kind = op["op"]
        where = f"after op {idx} ({kind})"
        if kind == "offer":
            t = op["t"] % len(getters)
            cands = [dp.Candidate(_val(v, case["merge"], floats), tag) for v, tag in op["cands"]]
            if op["via"] == "setitem" and table is not None and t < len(keys):
                key = keys[t]
                node = table
                for k in key[:-1]:
                    node = node[k]
                for cand in cands:
                    node[key[-1]] = cand
            elif op["via"] == "held" and t < len(held):
                held[t].update(*cands)
                run.probe("write_through_held_handle")
            else:
                getters[t]().update(*cands)
            offers[t].extend((tok(v), tag) for v, tag in op["cands"])
            if len(op["cands"]) > 1:
                run.nontrivial = True
            if any(tag is None for _, tag in op["cands"]):
                run.probe("untagged_offer")
            ORACLE.begin(0)
            obs = check_all(where)
            run.event(idx, kind, t, obs)
        elif kind == "read":
            ORACLE.begin(op["order"])
            obs = check_all(where)
            if ORACLE.permuted:
                run.probe("order_permuted", ORACLE.permuted)
                run.nontrivial = True
            run.event(idx, kind, op["order"], ORACLE.consults, obs)
        elif kind == "unwritten":
            if table is None:
                continue
            ORACLE.begin(op["order"])
            key = tuple(0 if d[0] == "L" else "never-written" for d in case["dims"])
            if key in models:
                continue
            proxy = cell(key)
            worst = INF if case["merge"] == "MIN" else -INF
            got = (_fnum(proxy.value()), list(proxy.infos()), len(proxy), list(proxy),
                   proxy.is_infinite(), proxy.info())
            run.check(got == (worst, [], 0, [], True, None), ("C16",), "C16.unwritten",
                      lambda: f"{where}: never-written cell {key} reads {got}")
            run.probe("unwritten_read")
            run.event(idx, kind, repr(got))
        elif kind == "clone":
            # a new entry seeded with the current value and the LIVE tag set of an existing one
            # (what `table.entry(cell.value(), cell.infos())` does): from now on the two have
            # separate histories
            src = op["src"] % len(getters)
            entry = getters[src]()
            value, infos = entry.value(), entry.infos()
            if case["ret"] == "ANY" and len(infos) > 1:
                continue
            if op["via"] == "Entry" or table is None:
                clone = dp.Entry(value, infos, merge, ret)
            else:
                clone = table.entry(value, infos)
            best, tags = _opt(case["merge"], offers[src])
            getters.append(lambda e=clone: e)
            offers.append([(best, t) for t in sorted(infos)] or [(best, None)])
            run.probe("cloned_entry")
            run.nontrivial = True
            ORACLE.begin(0)
            obs = check_all(where)
            run.event(idx, kind, src, obs)
        elif kind == "combine":
            a, b = op["a"] % len(getters), op["b"] % len(getters)
            w = op["w"]
            tagidx = {None: 0, "a": 1, "b": 2, "c": 3}

            def comb(left, right, w=w):
                return dp.Candidate(
                    left.value + right.value + w[tagidx[left.info] * 4 + tagidx[right.info]],
                    (left.info, right.info),
                )

            ORACLE.begin(op["order"])
            ea, eb = getters[a](), getters[b]()
            la, lb = list(ea.infos()), list(eb.infos())
            va, vb = _fnum(ea.value()), _fnum(eb.value())
            result = ea.combine(eb, comb)
            pairs = [((x, y), va + vb + w[tagidx[x] * 4 + tagidx[y]]) for x in la for y in lb]
            worst = INF if case["merge"] == "MIN" else -INF
            best = worst
            for _, v in pairs:
                if _better(case["merge"], v, best):
                    best = v
            opt_pairs = {p for p, v in pairs if v == best} if pairs else set()
            got_v = _fnum(result.value())
            got_i = list(result.infos())
            run.check(got_v == best, ("C16",), "C16.combine-value",
                      lambda: f"{where}: combine of {la}@{va} and {lb}@{vb} gives {got_v}, "
                              f"optimum over pairs is {best}")
            if case["ret"] == "ALL":
                ok = set(got_i) == opt_pairs
            elif case["ret"] == "ANY":
                ok = len(got_i) == (1 if opt_pairs else 0) and set(got_i) <= opt_pairs
            else:
                ok = not got_i
            if best in (INF, -INF):
                ok = set(got_i) <= opt_pairs
            run.check(ok, ("C16",), "C16.combine-tags",
                      lambda: f"{where}: combine retains {got_i}, optimal pairs {sorted(opt_pairs)} "
                              f"policy {case['ret']}")
            if len(pairs) > 1:
                run.probe("combine_pairs>1")
                run.nontrivial = True
            if ORACLE.permuted:
                run.probe("order_permuted", ORACLE.permuted)
            # combining must not disturb its operands
            ORACLE.begin(0)
            obs = check_all(where)
            run.event(idx, kind, a, b, got_v, sorted(map(repr, got_i)), obs)
    return run


def describe(pid):
    return {
        "rule": "Hypothesis-drawn histories (1-8 ops quick, 1-12 thorough) of offer-batches "
                "(values {0,1,2,inf} x tags {none,a,b,c}, via update() or table[k]=c), reads "
                "under a drawn iteration order, reads of never-written cells and combines with "
                "a drawn pair-weight table, on 1-3 standalone entries or 1-3 cells of one 1-3 "
                "dimensional List/Dict table (standalone entries created from the policies, by "
                "table.entry(), or pre-filled with a value and tags), for the 2x3 policy combinations; after every "
                "operation every target is compared with the list-of-offers model, through a freshly "
                "indexed handle and through a handle obtained before the first write. A run is "
                "non-trivial if it contains a multi-candidate batch, a permuted iteration or a "
                "combine over more than one pair; distinct = distinct case digest.",
        "real": ["superrec2.utils.dynamic_programming (Entry, EntryProxy, Table, TableProxy, "
                 "compiled from the working tree, sets routed to SimSet)", "infinity"],
        "stub": ["iteration order of sets (order oracle)"],
        "assumptions": [
            "tags are truthy hashable strings (the library drops falsy tags by design)",
            "an all-infinite offer to a table cell counts as 'never written': its tags may be dropped",
            "seeded sampling, not exhaustive enumeration",
        ],
        "probes_expected": ["order_permuted", "untagged_offer", "unwritten_read", "combine_pairs>1",
                            "prefilled_entry", "write_through_held_handle", "cloned_entry"],
    }
