"""Canonical forms shared by the engines: ete3 trees <-> nested lists / clades, solution
keys, input documents.  Node identity is always the clade (sorted tuple of leaf names)."""
from . import ref


def ete_to_nested(node):
    if node.is_leaf():
        return node.name
    return [ete_to_nested(c) for c in node.children]


def ete_clade_index(tree):
    """{ete3 node: clade tuple} for every node of the tree."""
    index = {}
    for node in tree.traverse("postorder"):
        if node.is_leaf():
            index[node] = (node.name,)
        else:
            index[node] = tuple(sorted(x for c in node.children for x in index[c]))
    return index


def tree_integrity(tree):
    """child.up is parent for every edge (ete3's add_child re-parents silently)."""
    for node in tree.traverse():
        for child in node.children:
            if child.up is not node:
                return False
    return True


def nested_map(nested, fn):
    if isinstance(nested, str):
        return fn(nested)
    return [nested_map(c, fn) for c in nested]


def nested_reorder(nested, rng):
    if isinstance(nested, str):
        return nested
    kids = [nested_reorder(c, rng) for c in nested]
    rng.shuffle(kids)
    return kids


def internal_names(nested, prefix, mode):
    """{clade: name} for internal nodes, numbered in pre-order.  mode 0: unnamed; 1: all named;
    2: every other node carries a name that looks like an automatic label (O1, O3, ... /
    S1, S3, ...) so that label_internal has to skip taken indices; 3: every other node named
    with a plain name."""
    names = {}
    if mode == 0:
        return names
    counter = [0]

    def go(x):
        if isinstance(x, str):
            return (x,)
        k = counter[0]
        counter[0] += 1
        clades = [go(c) for c in x]
        clade = tuple(sorted(y for c in clades for y in c))
        if mode == 1:
            names[clade] = f"{prefix.lower()}n{k}"
        elif mode == 2 and k % 2 == 0:
            names[clade] = f"{prefix}{k + 1}"
        elif mode == 3 and k % 2 == 0:
            names[clade] = f"{prefix.lower()}n{k}"
        return clade

    go(nested)
    return names


def output_key(out, labelled):
    """Canonical key of a (Super)ReconciliationOutput: mapping (and labelling) by clades."""
    oidx = ete_clade_index(out.input.object_tree)
    sidx = ete_clade_index(out.input.species_lca.tree)
    mkey = tuple(sorted((oidx[v], sidx[s]) for v, s in out.object_species.items()))
    if not labelled:
        return mkey
    if out.ordered:
        lkey = tuple(sorted((oidx[v], tuple(syn)) for v, syn in out.syntenies.items()))
    else:
        lkey = tuple(sorted((oidx[v], tuple(sorted(syn))) for v, syn in out.syntenies.items()))
    return (mkey, lkey)


class RefInput:
    """Reference-model view of one concrete pair of binary trees + leaf data."""

    def __init__(self, object_nested, species_nested, leaf_species, costs, leafseqs=None,
                 root_order=None):
        self.object_nested = object_nested
        self.species_nested = species_nested
        self.otree = ref.build(object_nested)
        self.stree = ref.build(species_nested)
        self.onode = {n.clade: n for n in self.otree.nodes()}
        self.snode = {n.clade: n for n in self.stree.nodes()}
        self.leafmap = {leaf: self.snode[(leaf_species[leaf.name],)] for leaf in self.otree.leaves()}
        self.costs = costs
        self.leafseqs = (
            {leaf: tuple(leafseqs[leaf.name]) for leaf in self.otree.leaves()}
            if leafseqs is not None else None
        )
        self.root_order = tuple(root_order) if root_order is not None else None
        self._opt = {}

    def opt(self, mode, restrict_lca=False, canonical=False, budget=None):
        key = (mode, restrict_lca, canonical)
        if key not in self._opt:
            restrict = ref.lca_mapping(self.otree, self.leafmap) if restrict_lca else None
            self._opt[key] = ref.opt(
                self.otree, self.stree, self.leafmap, self.costs, mode, self.leafseqs,
                restrict=restrict, root_order=self.root_order if mode == "ordered" else None,
                canonical=canonical, budget=budget,
            )
        return self._opt[key]

    def check(self, out, mode):
        """Validity of a package output against this input; (problem|None, recount|None)."""
        oidx = ete_clade_index(out.input.object_tree)
        sidx = ete_clade_index(out.input.species_lca.tree)
        m = {}
        for v, s in out.object_species.items():
            if oidx.get(v) not in self.onode or sidx.get(s) not in self.snode:
                return "mapping refers to a node outside the input trees", None
            m[self.onode[oidx[v]]] = self.snode[sidx[s]]
        lab = None
        if mode is not None:
            lab = {}
            for v, syn in out.syntenies.items():
                if oidx.get(v) not in self.onode:
                    return "labelling refers to a node outside the object tree", None
                lab[self.onode[oidx[v]]] = tuple(syn)
        return ref.check_solution(self.otree, self.stree, self.leafmap, m, self.costs, mode,
                                  self.leafseqs, lab, self.root_order if mode == "ordered" else None)
