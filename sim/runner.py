"""Seeded search driver: batches of Hypothesis-generated cases on forked workers, replay
files, known findings, evidence.  One integer (VERIF_SEED) decides every batch seed."""
import faulthandler
import json
import multiprocessing
import multiprocessing.connection
import os
import subprocess
import sys
import time
import traceback

from . import kernel
from .kernel import HarnessError, Violation, case_digest, derive_seed

VERIF = os.path.dirname(os.path.dirname(os.path.abspath(__file__)))
# sensitivity tests against a scratch copy write their evidence / replays elsewhere
OUT = os.environ.get("VERIF_SCRATCH_OUT") or VERIF
PY = sys.executable
WORKERS = int(os.environ.get("VERIF_WORKERS", "16"))
SHRINK_RUNS = int(os.environ.get("VERIF_SHRINK_RUNS", "400"))
SHRINK_WALL_S = float(os.environ.get("VERIF_SHRINK_WALL_S", "40"))


def _hyp():
    import hypothesis
    from hypothesis import HealthCheck, Phase, given, seed, settings

    return hypothesis, HealthCheck, Phase, given, seed, settings


# --------------------------------------------------------------------------------------
# one batch = one Hypothesis run with its own seed, inside a forked worker
# --------------------------------------------------------------------------------------
def run_batch(pid, tier, batch_seed, n_examples, watchdog_s):
    """Returns a JSON-able summary.  Never raises for violations or harness errors."""
    from .props import PROPS

    engine = PROPS[pid]["engine"]
    faulthandler.dump_traceback_later(watchdog_s, exit=True)
    hypothesis, HealthCheck, Phase, given, seed, settings = _hyp()
    out = {
        "evaluations": 0,
        "digests": [],
        "probes": {},
        "faults": {},
        "checks": 0,
        "samples": [],
        "failure": None,
        "harness_error": None,
        "sim_time": 0.0,
        "consults": 0,
        "permuted": 0,
        "skipped": 0,
        "shrink_runs": 0,
        "slowest_s": 0.0,
        "slowest_case": None,
        "pool": [],
    }
    digests = set()
    state = {"target": None, "last_fail": None, "failed_digests": set(), "first_fail_at": {}}
    trace = []  # every case executed in this child, in order (serialised: engines may not
    #             be trusted to leave a case untouched)
    t_cons0, t_perm0, t_clock0 = (
        kernel.ORACLE.total_consults,
        kernel.ORACLE.total_permuted,
        kernel.CLOCK.total,
    )

    def one(case):
        out["evaluations"] += 1
        if state["target"] is not None:
            out["shrink_runs"] += 1
            # shrink budget (reporting quality only: the verdict is already decided); once it
            # is exhausted every candidate not already known to fail "passes" without being
            # executed, so that Hypothesis settles on the smallest failing case seen so far;
            # cases already seen failing are re-executed and fail again (no flakiness)
            if (out["shrink_runs"] > SHRINK_RUNS
                    or time.perf_counter() - state["t_first_fail"] > SHRINK_WALL_S):
                if case_digest(case) not in state["failed_digests"]:
                    return
        t_case = time.perf_counter()
        trace.append(json.dumps(case, sort_keys=True))
        try:
            run = kernel.guarded_execute(engine, case, pid)
        except Violation as v:
            if state["target"] is None:
                state["target"] = v.label
                state["t_first_fail"] = time.perf_counter()
            if v.label != state["target"]:
                return  # keep the violation class stable while shrinking
            state["last_fail"] = (case, v.label, v.message)
            state["failed_digests"].add(case_digest(case))
            state["first_fail_at"].setdefault(case_digest(case), len(trace) - 1)
            raise
        dt = time.perf_counter() - t_case  # reporting only: never used for a decision
        if dt > out["slowest_s"]:
            out["slowest_s"] = dt
            out["slowest_case"] = case
        if state["target"] is None:
            out["checks"] += run.checks
            for k, n in run.probes.items():
                out["probes"][k] = out["probes"].get(k, 0) + n
            for k, n in run.faults.items():
                out["faults"][k] = out["faults"].get(k, 0) + n
            if len(out["pool"]) < 6 and out["evaluations"] % 7 == 3:
                out["pool"].append(case)
            if run.checks == 0:
                out["skipped"] += 1
            elif run.nontrivial:
                d = case_digest(case)
                if d not in digests:
                    digests.add(d)
                    if len(out["samples"]) < 2:
                        out["samples"].append(case)

    test = given(engine.strategy(pid, tier))(one)
    test = settings(
        max_examples=n_examples,
        database=None,
        deadline=None,
        derandomize=False,
        suppress_health_check=list(HealthCheck),
        report_multiple_bugs=False,
        phases=(Phase.generate, Phase.shrink),
        print_blob=False,
    )(test)
    test = seed(batch_seed)(test)
    try:
        test()
    except Violation:
        case, label, message = state["last_fail"]
        out["failure"] = {"case": case, "label": label, "message": message}
    except BaseException as exc:  # noqa: BLE001 - anything else is a harness problem
        if state["last_fail"] is not None and isinstance(
            exc, getattr(hypothesis.errors, "FlakyFailure", ())
        ):
            # The same case failed once and passed when Hypothesis executed it again.  The
            # simulator itself is deterministic (self-test), so the outcome depends on state
            # that earlier runs of this batch left behind in the code under test.  Reported as
            # a candidate only: the parent accepts it if re-executing the whole batch in a
            # fresh process ends in the same way, otherwise it is a harness error.
            case, label, message = state["last_fail"]
            out["failure"] = {"case": case, "label": label, "message": message,
                              "state_dependent": True}
        else:
            out["harness_error"] = "".join(
                traceback.format_exception(type(exc), exc, exc.__traceback__)
            )[-6000:]
    if out["failure"] is not None:
        # what ran in this process before the reported case failed for the first time: the
        # parent uses it if the case turns out not to fail on its own
        at = state["first_fail_at"].get(case_digest(out["failure"]["case"]), 0)
        out["failure"]["prelude"] = trace[:at]
    out["digests"] = sorted(digests)
    out["consults"] = kernel.ORACLE.total_consults - t_cons0
    out["permuted"] = kernel.ORACLE.total_permuted - t_perm0
    out["sim_time"] = kernel.CLOCK.total - t_clock0
    faulthandler.cancel_dump_traceback_later()
    return out


# --------------------------------------------------------------------------------------
# known findings
# --------------------------------------------------------------------------------------
def load_known():
    path = os.path.join(VERIF, "known_findings.json")
    if not os.path.exists(path):
        return []
    with open(path) as handle:
        return json.load(handle)["findings"]


def replay_case(engine, pid, case):
    """Execute one case; returns (label, message) of the violation or None."""
    try:
        kernel.guarded_execute(engine, case, pid)
    except Violation as v:
        return v.label, v.message
    return None


def _child_main(conn, fn, args):
    try:
        res = fn(*args)
    except BaseException as exc:  # noqa: BLE001
        res = {"harness_error": "".join(
            traceback.format_exception(type(exc), exc, exc.__traceback__))[-6000:]}
    try:
        conn.send(res)
        conn.close()
    finally:
        os._exit(0)  # no atexit handlers, no second flush of buffers inherited from the parent


def _spawn(ctx, fn, args):
    """Run fn(*args) in a child forked from the current (pristine) state."""
    sys.stdout.flush()
    sys.stderr.flush()
    recv, send = ctx.Pipe(duplex=False)
    proc = ctx.Process(target=_child_main, args=(send, fn, args), daemon=True)
    proc.start()
    send.close()
    return proc, recv


def _run_sequence(pid, prelude, case):
    """Execute the prelude cases (outcomes ignored), then the case: -> (label, message) | None."""
    from .props import PROPS

    engine = PROPS[pid]["engine"]
    faulthandler.dump_traceback_later(900, exit=True)
    for text in prelude:
        try:
            kernel.guarded_execute(engine, json.loads(text), pid)
        except Exception:  # noqa: BLE001 - only the state it leaves behind matters here
            pass
    res = replay_case(engine, pid, case)
    faulthandler.cancel_dump_traceback_later()
    return {"result": res}


def minimise_prelude(ctx, pid, prelude, case, label, max_tests=160, max_wall_s=120.0):
    """ddmin over the runs that preceded a state-dependent failure: the smallest sub-sequence
    of earlier simulated runs after which `case` still fails with `label`, each candidate
    tried in a child forked from the pristine parent.  None if even the full prelude does not
    reproduce the failure."""
    t0 = time.time()
    tests = [0]

    def fails(seq):
        tests[0] += 1
        proc, conn = _spawn(ctx, _run_sequence, (pid, seq, case))
        try:
            got = conn.recv() if conn.poll(900) else None
        except EOFError:
            got = None
        proc.join(5)
        res = (got or {}).get("result")
        return res is not None and res[0] == label

    if not fails(prelude):
        return None
    seq = list(prelude)
    n = 2
    while len(seq) >= 1 and tests[0] < max_tests and time.time() - t0 < max_wall_s:
        chunk = max(1, len(seq) // n)
        parts = [seq[i:i + chunk] for i in range(0, len(seq), chunk)]
        reduced = False
        # the runs closest to the failure matter most often: try dropping the oldest first
        for i in range(len(parts)):
            rest = [c for j, part in enumerate(parts) if j != i for c in part]
            if tests[0] >= max_tests or time.time() - t0 >= max_wall_s:
                break
            if fails(rest):
                seq = rest
                n = max(n - 1, 2)
                reduced = True
                break
        if not reduced:
            if chunk == 1:
                break
            n = min(len(seq), n * 2)
    return seq


def _replay_known(pid):
    from .props import PROPS

    engine = PROPS[pid]["engine"]
    faulthandler.dump_traceback_later(600, exit=True)
    results = []
    for entry in load_known():
        if entry.get("property") != pid or "case" not in entry:
            continue
        results.append((entry, replay_case(engine, pid, entry["case"])))
    faulthandler.cancel_dump_traceback_later()
    return {"results": results}


# --------------------------------------------------------------------------------------
# the check
# --------------------------------------------------------------------------------------
def check_property(prop, tier, base_seed):
    """Run the registered check of one property.  Returns the exit status."""
    pid = prop["id"]
    engine = prop["engine"]
    budget = prop[tier]
    t0 = time.time()
    kernel.install()
    engine.prepare()

    # Everything that executes code of the package runs in a child forked from this pristine
    # parent (one child per batch, one for the witnesses of the known findings): whatever a
    # run leaves behind in module-level state of the code under test dies with the child, so
    # a batch is a function of its seed and the code alone, whichever worker slot it gets.
    _hyp()  # import Hypothesis once, before forking
    ctx = multiprocessing.get_context("fork")
    known_lines = []
    known_cases = {}
    regressions = []
    proc, conn = _spawn(ctx, _replay_known, (pid,))
    try:
        known = conn.recv() if conn.poll(600) else None
    except EOFError:
        known = None
    proc.join(5)
    if known is None or "harness_error" in known:
        print("HARNESS-ERROR", pid, "replay of the known findings failed")
        print((known or {}).get("harness_error", "no answer"))
        return 2
    for entry, res in known["results"]:
        if entry.get("status") == "known":
            if res is not None and res[0] == entry.get("label", res[0]):
                known_lines.append(
                    f"KNOWN-FINDING: property={pid} {entry['id']}: {entry['what']}")
                known_cases[case_digest(entry["case"])] = entry["id"]
            elif res is not None:
                regressions.append((entry, res))  # fails, but not the way recorded
            else:
                print(f"note: known finding {entry['id']} no longer reproduces on this tree")
        elif res is not None:
            regressions.append((entry, res))  # a repaired defect is back
    for line in known_lines:
        print(line)

    n_batches, n_examples = budget["batches"], budget["examples"]
    if os.environ.get("VERIF_MAX_BATCHES"):  # used by the self-test only
        n_batches = min(n_batches, int(os.environ["VERIF_MAX_BATCHES"]))
    wall_cap = budget["wall_s"]
    watchdog = budget.get("watchdog_s", max(300, wall_cap * 3))
    agg = {
        "evaluations": 0, "checks": 0, "probes": {}, "faults": {}, "samples": [],
        "sim_time": 0.0, "consults": 0, "permuted": 0, "skipped": 0, "shrink_runs": 0,
    }
    digests = set()
    pools, samples = {}, {}  # by batch index: completion order must not matter
    failure = None
    harness = None
    batches_done = 0
    seeds_used = []
    pending = {}  # connection -> (process, batch index, batch seed)
    next_batch = 0
    capped = False
    if regressions:
        entry, res = regressions[0]
        failure = {"case": entry["case"], "label": res[0], "message": res[1] +
                   f" [witness of finding {entry['id']}]", "batch": -1, "batch_seed": 0}
        n_batches = 0
    try:
        while True:
            while (
                next_batch < n_batches
                and len(pending) < WORKERS
                and failure is None
                and harness is None
            ):
                if time.time() - t0 > wall_cap:
                    capped = True
                    break
                bseed = derive_seed(base_seed, pid, tier, next_batch) % (2**63)
                proc, conn = _spawn(ctx, run_batch, (pid, tier, bseed, n_examples, watchdog))
                pending[conn] = (proc, next_batch, bseed)
                next_batch += 1
            if not pending:
                break
            ready = multiprocessing.connection.wait(list(pending), timeout=watchdog + 30)
            if not ready:
                harness = "watchdog: no batch finished in time"
                break
            for conn in ready:
                proc, bidx, bseed = pending.pop(conn)
                try:
                    res = conn.recv()
                except EOFError:
                    res = None
                conn.close()
                proc.join(5)
                if res is None or "evaluations" not in res:
                    if harness is None:
                        harness = (f"batch {bidx} seed {bseed}: worker died (watchdog or crash)"
                                   if res is None else
                                   f"batch {bidx} seed {bseed}: {res['harness_error']}")
                    continue
                batches_done += 1
                seeds_used.append((bidx, bseed))
                for k in ("evaluations", "checks", "sim_time", "consults", "permuted",
                          "skipped", "shrink_runs"):
                    agg[k] += res[k]
                for k in ("probes", "faults"):
                    for name, n in res[k].items():
                        agg[k][name] = agg[k].get(name, 0) + n
                digests.update(res["digests"])
                pools[bidx] = res["pool"]
                samples[bidx] = res["samples"]
                if res["slowest_s"] > agg.get("slowest_s", 0):
                    agg["slowest_s"] = res["slowest_s"]
                    agg["slowest_case"] = res["slowest_case"]
                if res["harness_error"] and harness is None:
                    harness = f"batch {bidx} seed {bseed}: {res['harness_error']}"
                if res["failure"]:
                    fail = res["failure"]
                    kid = known_cases.get(case_digest(fail["case"]))
                    # batches finish in a timing-dependent order: report the failing batch
                    # with the lowest index, so that one VERIF_SEED names one violation
                    if kid is None and (failure is None or bidx < failure["batch"]):
                        failure = dict(fail, batch=bidx, batch_seed=bseed,
                                       examples=n_examples)
            if harness is not None:
                break
            if failure is not None and not any(
                    bidx < failure["batch"] for _, bidx, _ in pending.values()):
                break
    finally:
        # the verdict is decided: batches still running (all of a higher index than the
        # reported one) are not waited for
        for conn, (proc, _, _) in pending.items():
            proc.kill()
            proc.join(5)
            conn.close()
    seeds_used = [bseed for _, bseed in sorted(seeds_used)]

    case_pool = [case for bidx in sorted(pools) for case in pools[bidx]]
    # one sample from each of the first batches (they are different swarm configurations)
    for bidx in sorted(samples):
        agg["samples"].extend(samples[bidx][:1])
    if failure is None and harness is None and hasattr(engine, "post_phase"):
        try:
            post = engine.post_phase(pid, tier, base_seed, case_pool)
        except Exception as exc:  # noqa: BLE001
            post = None
            harness = "post phase: " + "".join(
                traceback.format_exception(type(exc), exc, exc.__traceback__))[-4000:]
        if post is not None:
            agg["evaluations"] += post["evaluations"]
            agg["checks"] += post["checks"]
            for k in ("probes", "faults"):
                for name, n in post[k].items():
                    agg[k][name] = agg[k].get(name, 0) + n
            digests.update(post["digests"])
            if post["failure"] is not None:
                failure = dict(post["failure"], batch=-2,
                               batch_seed=derive_seed(base_seed, pid, "post") % (2**63))

    wall = time.time() - t0
    status = 0
    replay_path = None
    if harness is not None:
        print("HARNESS-ERROR", pid)
        print(harness)
        status = 2
    elif failure is not None:
        os.makedirs(os.path.join(OUT, "replays"), exist_ok=True)
        replay_path = os.path.join(OUT, "replays", f"{pid}-{failure['batch_seed']}.json")
        with open(replay_path, "w") as handle:
            json.dump(
                {
                    "property": pid,
                    "engine": engine.NAME,
                    "verif_seed": base_seed,
                    "pyopt": kernel.PYOPT,
                    "batch": failure["batch"],
                    "batch_seed": failure["batch_seed"],
                    "case": failure["case"],
                    "violation": {"label": failure["label"], "message": failure["message"]},
                },
                handle,
                indent=1,
                sort_keys=True,
            )
        # the replay must reproduce in a fresh interpreter before it is reported
        def fresh_replay():
            return subprocess.run(
                [PY, os.path.join(VERIF, "run_check.py"), pid, "--replay", replay_path],
                capture_output=True, text=True, timeout=1200,
                env=dict(os.environ, PYTHONHASHSEED="0"),
            )

        reproduced = False
        if not failure.get("state_dependent"):
            proc = fresh_replay()
            reproduced = proc.returncode == 1 and f"label={failure['label']}" in proc.stdout
        if not reproduced and failure.get("prelude"):
            # The minimised case alone does not fail in a fresh process: the violation needs
            # state that earlier simulated runs of the same batch left behind in the code
            # under test (a module-level cache, say).  Minimise that history too: the
            # shortest sub-sequence of the earlier runs after which the case still fails.
            prelude = minimise_prelude(ctx, pid, failure["prelude"], failure["case"],
                                       failure["label"])
            if prelude is not None and not prelude:
                # the case fails on its own after all (it carries its history inside itself)
                proc = fresh_replay()
                reproduced = proc.returncode == 1 and f"label={failure['label']}" in proc.stdout
            elif prelude is not None:
                with open(replay_path) as handle:
                    doc = json.load(handle)
                doc.update(mode="sequence", prelude=[json.loads(t) for t in prelude],
                           note="the violation depends on state carried over from earlier "
                                "simulated runs in the same process: the replay executes the "
                                "prelude runs (minimised from %d), then the case"
                                % len(failure["prelude"]))
                with open(replay_path, "w") as handle:
                    json.dump(doc, handle, indent=1, sort_keys=True)
                proc = fresh_replay()
                reproduced = proc.returncode == 1 and f"label={failure['label']}" in proc.stdout
                if reproduced:
                    print(f"note: the minimised case fails only after {len(prelude)} earlier "
                          f"run(s) in the same process (minimised from "
                          f"{len(failure['prelude'])}): state is carried over between runs "
                          f"inside the code under test; the replay file holds that history")
        if not reproduced and failure["batch"] >= 0:
            # last resort: a batch is a function of its seed, so the replay file re-executes
            # the whole batch instead and must end in the same failure
            with open(replay_path) as handle:
                doc = json.load(handle)
            doc.pop("prelude", None)
            doc.update(mode="batch", tier=tier, examples=failure["examples"],
                       note="the violation depends on state carried over from earlier simulated "
                            "runs in the same process; the replay re-executes the batch")
            with open(replay_path, "w") as handle:
                json.dump(doc, handle, indent=1, sort_keys=True)
            proc = fresh_replay()
            reproduced = proc.returncode == 1 and f"label={failure['label']}" in proc.stdout
            if reproduced:
                print("note: the minimised case fails only after the earlier runs of its batch "
                      "(state carried over between runs inside the code under test); the replay "
                      "file re-executes the batch")
        if not reproduced:
            print("HARNESS-ERROR", pid, "replay did not reproduce in a fresh process")
            print(proc.stdout[-2000:], proc.stderr[-2000:])
            status = 2
        else:
            print(f"violation class: {failure['label']}")
            print(f"message: {failure['message']}")
            print(f"minimised case: {json.dumps(failure['case'], sort_keys=True)[:3000]}")
            print(f"VIOLATION property={pid} replay={replay_path}")
            status = 1

    if status != 2:
        write_evidence(prop, tier, base_seed, agg, digests, wall, batches_done, n_batches,
                       n_examples, seeds_used, capped, 1 if status == 1 else 0, known_lines)
        if status == 0 and (agg["evaluations"] < 1 or len(digests) < 2):
            print("HARNESS-ERROR", pid, "explored too little to say anything")
            status = 2
    print(
        f"{pid} tier={tier} seed={base_seed} runs={agg['evaluations']} "
        f"distinct_nontrivial={len(digests)} oracle_checks={agg['checks']} "
        f"batches={batches_done}/{n_batches} wall={wall:.1f}s status={status}"
    )
    return status


def write_evidence(prop, tier, base_seed, agg, digests, wall, batches_done, n_batches,
                   n_examples, seeds_used, capped, violations, known_lines):
    pid = prop["id"]
    engine = prop["engine"]
    desc = engine.describe(pid)
    zero_probes = sorted(p for p in desc.get("probes_expected", []) if not agg["probes"].get(p)
                         and not agg["faults"].get(p))
    evidence = {
        "property_id": pid,
        "tier": tier,
        "seed": int(base_seed),
        "level": "exploration",
        "coverage": {
            "evaluations": int(agg["evaluations"]),
            "distinct_nontrivial": int(len(digests)),
            "rule": desc["rule"],
            "samples": agg["samples"][:3] or [],
            "oracle_comparisons": int(agg["checks"]),
            "runs_skipped_without_oracle": int(agg["skipped"]),
            "batches_run": batches_done,
            "batches_planned": n_batches,
            "examples_per_batch": n_examples,
            "wall_capped": capped,
            "batch_seeds_first": seeds_used[:8],
            "simulated_runs_per_hour": int(agg["evaluations"] / max(wall, 1e-6) * 3600),
            "seeds_per_hour": int(batches_done / max(wall, 1e-6) * 3600),
            "simulated_clock_seconds_covered": round(agg["sim_time"], 3),
            "order_decisions": int(agg["consults"]),
            "order_decisions_permuted": int(agg["permuted"]),
            "fault_kinds_fired": agg["faults"],
            "probes": agg["probes"],
            "probes_stuck_at_zero": zero_probes,
            "components_real": desc["real"],
            "components_stubbed": desc["stub"],
            "instrumented_set_sites": int(sum(kernel.REWRITES.values())),
            "workers": WORKERS,
            "package_compiled_with_optimize": kernel.PYOPT,
            "known_findings_replayed": known_lines,
            "shrink_executions": int(agg["shrink_runs"]),
            "slowest_run_wall_s": round(agg.get("slowest_s", 0.0), 3),
            "slowest_run_case": agg.get("slowest_case"),
        },
        "assumptions": desc["assumptions"],
        "wall_s": round(wall, 2),
        "violations": violations,
    }
    os.makedirs(os.path.join(OUT, "evidence"), exist_ok=True)
    with open(os.path.join(OUT, "evidence", f"{pid}.json"), "w") as handle:
        json.dump(evidence, handle, indent=1, sort_keys=True, default=str)


def replay_file(prop, path):
    pid = prop["id"]
    engine = prop["engine"]
    with open(path) as handle:
        doc = json.load(handle)
    if doc.get("pyopt"):
        kernel.PYOPT = int(doc["pyopt"])
        os.environ["VERIF_PYOPT"] = str(kernel.PYOPT)
    kernel.install()
    engine.prepare()
    if doc.get("mode") == "sequence":
        for prior in doc["prelude"]:
            try:
                kernel.guarded_execute(engine, prior, pid)
            except Exception:  # noqa: BLE001 - only the state it leaves behind matters
                pass
        print(f"replay {path}: {len(doc['prelude'])} prelude run(s) executed")
        res = replay_case(engine, pid, doc["case"])
    elif doc.get("mode") == "batch":
        _hyp()
        out = run_batch(pid, doc["tier"], doc["batch_seed"], doc["examples"], 1100)
        fail = out.get("failure")
        res = None
        if out.get("harness_error"):
            print(f"replay {path}: HARNESS-ERROR {out['harness_error']}")
            return 2
        if fail is not None:
            same = case_digest(fail["case"]) == case_digest(doc["case"])
            print(f"replay {path}: batch of {doc['examples']} runs re-executed, "
                  f"{'same' if same else 'another'} minimised case")
            res = (fail["label"], fail["message"])
    else:
        res = replay_case(engine, pid, doc["case"])
    if res is None:
        print(f"replay {path}: no violation")
        return 0
    print(f"replay {path}: label={res[0]}")
    print(f"message: {res[1]}")
    print(f"VIOLATION property={pid} replay={path}")
    return 1
