"""Engine E1 (solver-history) with the lazy-producer tasks of E2 on solver inputs.

A case is a small program: 1-2 caller-owned inputs and a history of operations on them
(solves with all seven algorithms under drawn set-iteration orders and tqdm clocks, explicit
label_internal, metamorphic re-solves on derived inputs, generate_all / binarize()
enumerations opened, stepped in drawn interleavings, cancelled or thrown into).  After every
operation results are compared with the brute-force reference (oracle regime) and with every
earlier operation of the same history.  Serves C01-C05, C08 (end to end), C09, C10.
"""
import contextlib
import io
import random
import sys

from hypothesis import strategies as st

from . import canon, ref
from .kernel import CLOCK, ORACLE, HarnessError, Run

NAME = "E1-solver-history"
_m = {}

ALGOS = ("lca", "thl", "exh", "base_spfs", "ext_spfs", "base_uspfs", "superdtl")
MODE = {"lca": None, "thl": None, "exh": None, "base_spfs": "ordered", "ext_spfs": "ordered",
        "base_uspfs": "unordered", "superdtl": "unordered"}
HAS_POLICY = {"lca": False}
PROP_OF = {"thl": "C01", "exh": "C01", "lca": "C01", "base_spfs": "C02", "ext_spfs": "C02",
           "base_uspfs": "C03", "superdtl": "C03"}


INVALID = "invalid-output"


class SimFault(Exception):
    """Injected into a suspended generator (fault F1)."""


def prepare():
    from superrec2.compute import exhaustive, reconciliation, super_reconciliation
    from superrec2.compute import unordered_super_reconciliation as usr
    from superrec2.model import reconciliation as model
    from superrec2.utils import dynamic_programming as dp
    from superrec2.utils import trees

    from superrec2.render import layout
    from superrec2.render import model as rmodel
    from superrec2.utils import tex

    from .peer import PEER

    PEER.install(tex)
    _m.update(
        model=model, dp=dp, trees=trees, exhaustive=exhaustive, layout=layout, rmodel=rmodel,
        algos={
            "lca": reconciliation.reconcile_lca,
            "thl": reconciliation.reconcile_thl,
            "exh": exhaustive.reconcile_exhaustive,
            "base_spfs": super_reconciliation.sreconcile_base_spfs,
            "ext_spfs": super_reconciliation.sreconcile_extended_spfs,
            "base_uspfs": usr.usreconcile_base_uspfs,
            "superdtl": usr.usreconcile_extended_uspfs,
        },
    )


# --------------------------------------------------------------------------------------
# case strategies
# --------------------------------------------------------------------------------------
SPECIES = "ABCDEFGH"
DEFAULT_COSTS = {"spe": 0, "dup": 1, "hgt": 1, "floss": 1, "sloss": 1}
# species names that are prefixes of each other or differ by more than case
TRICKY_SPECIES = ["A", "AB", "S2", "B", "Ba", "s0", "c1", "D"]
# names equal up to case: legal wherever the leaf assignment is explicit (species inference from
# leaf names is documented as case-insensitive, so these are never used with inference)
CASE_PAIR_SPECIES = ["A", "a", "Ab", "AB", "S2", "s2", "B", "b"]
# species names with underscores, some of them underscore-prefixes of others: the documented
# inference of the species of a leaf `<species>_<suffix>` takes the first (shortest) matching
# prefix, case-insensitively
UNDERSCORE_SPECIES = ["eco", "eco_k12", "eco_k12_b", "Sal", "sal_x", "B_sub", "b", "K"]


def infer_species(leaf, species_names):
    """The documented rule of get_species_mapping, written independently."""
    lowered = {}
    for name in species_names:
        lowered[name.lower()] = name
    parts = leaf.split("_")
    for i in range(1, len(parts)):
        prefix = "_".join(parts[:i]).lower()
        if prefix in lowered:
            return lowered[prefix]
    return None
FAMILIES = ["a", "b", "c", "d", "e", "f"]
TRICKY_FAMILIES = ["g10", "16S", "g2", "B", "a", "c_1"]


@st.composite
def _shape(draw, leaves, max_arity=2):
    """Nested list over `leaves` built by successive joins of drawn groups (one time in four a
    caterpillar: deep chains are where inheritance / loss chains live)."""
    nodes = list(leaves)
    if len(nodes) > 3 and max_arity == 2 and draw(st.integers(0, 3)) == 0:
        order = draw(st.permutations(nodes))
        tree = order[0]
        for leaf in order[1:]:
            tree = [tree, leaf] if draw(st.booleans()) else [leaf, tree]
        return tree
    while len(nodes) > 1:
        arity = 2
        if max_arity > 2 and len(nodes) > 2 and draw(st.integers(0, 2)) == 0:
            arity = draw(st.integers(3, min(max_arity, len(nodes))))
        group = []
        for _ in range(arity):
            group.append(nodes.pop(draw(st.integers(0, len(nodes) - 1))))
        nodes.insert(draw(st.integers(0, len(nodes))), group)
    return nodes[0]


def _size(lo, hi):
    """Sizes biased away from the trivial end (shrinks towards lo)."""
    vals = list(range(lo, hi + 1))
    return st.sampled_from(vals + vals[1:] * 2 + vals[2:] * 2)


@st.composite
def _costs(draw, labelled, coherent=True):
    if draw(st.integers(0, 4)) == 0:
        # the documented default vector: what users run, and rich in ties
        return {"spe": 0, "dup": 1, "hgt": 1, "floss": 1, "sloss": 1}
    dup = draw(st.integers(0, 3))
    floss = draw(st.integers(0, 3))
    hgt = draw(st.sampled_from([0, 1, 1, 2, 3, "inf", "inf"]))
    if coherent:
        spe = draw(st.integers(0, min(2, dup + 2 * floss)))
        sloss = draw(st.integers(0, min(3, (dup + 2 * floss - spe) // 2))) if labelled else 1
    else:
        spe = draw(st.integers(0, 3))
        sloss = draw(st.integers(0, 3))
    return {"spe": spe, "dup": dup, "hgt": hgt, "floss": floss, "sloss": sloss}


@st.composite
def _input(draw, labelled, max_obj, max_sp, max_fam, polytomy=False, coherent=True,
           min_obj=1, single_family=False, chain=False, case_pairs=False,
           underscore_names=False, min_fam=1):
    if chain:
        # swarm mode "deep chain": a 5-leaf caterpillar over 2-3 species - the shape on which
        # inheritance chains of the unordered model and path-dependent decoding live
        pool = SPECIES if draw(st.integers(0, 3)) else (
            CASE_PAIR_SPECIES if case_pairs and draw(st.booleans()) else TRICKY_SPECIES)
        nsp = draw(st.integers(2, 3))
        species = draw(_shape(list(pool[:nsp]), 2))
        nobj = max(5, min(max_obj, draw(st.integers(5, 7))))
        leaves = [f"{pool[draw(st.integers(0, nsp - 1))]}_{i}" for i in range(nobj)]
        order = draw(st.permutations(leaves))
        obj = order[0]
        for leaf in order[1:]:
            obj = [obj, leaf] if draw(st.booleans()) else [leaf, obj]
    else:
        pool = SPECIES if draw(st.integers(0, 3)) else (
            CASE_PAIR_SPECIES if case_pairs and draw(st.booleans()) else TRICKY_SPECIES)
        if underscore_names and draw(st.integers(0, 5)) == 0:
            pool = UNDERSCORE_SPECIES
        nsp = draw(_size(1, max_sp))
        species = draw(_shape(list(pool[:nsp]), 3 if polytomy else 2))
        nobj = draw(_size(min_obj, max_obj))
        leaves = [f"{pool[draw(st.integers(0, nsp - 1))]}_{i}" for i in range(nobj)]
        obj = draw(_shape(leaves, 3 if polytomy else 2))
    spec = {
        "species": species,
        "object": obj,
        "named": draw(st.sampled_from([0, 0, 1, 1, 2, 3])),
        "costs": ({"spe": 0, "dup": 1, "hgt": 1, "floss": 1, "sloss": 1}
                  if chain and draw(st.booleans()) else draw(_costs(labelled, coherent))),
        "syn": None,
        "root_order": None,
    }
    if spec["costs"]["hgt"] == "inf" and draw(st.booleans()):
        spec["inf_as"] = "infinity"
    if draw(st.integers(0, 4)) == 0:
        spec["cost_float"] = True
    if draw(st.integers(0, 2)) == 0:
        spec["own_costs"] = True
    if spec["costs"] == DEFAULT_COSTS and draw(st.booleans()):
        spec["implicit_costs"] = True
    if pool is UNDERSCORE_SPECIES:
        names = list(pool[:nsp])
        intended = {leaf: next(sp for sp in sorted(names, key=len, reverse=True)
                               if leaf.startswith(sp + "_")) for leaf in leaves}
        if draw(st.booleans()):
            # no leaf assignment in the document: the species are inferred from the names
            spec["infer"] = True
            spec["leaf_species"] = {leaf: infer_species(leaf, names) for leaf in leaves}
        else:
            spec["leaf_species"] = intended
    if draw(st.integers(0, 3)) == 0:
        # colour annotations on object-tree nodes (by pre-order index of all nodes)
        spec["colors"] = {str(draw(st.integers(0, 2 * nobj))): draw(st.sampled_from(
            ["ff0000", "00aa00", "000000"])) for _ in range(draw(st.integers(1, 2)))}
    if labelled:
        nfam = 1 if single_family else draw(st.integers(
            max(min_fam, 3 if chain else 1), max_fam))
        # plain letters, or names whose text order, natural order and case-insensitive order
        # all differ (g10 < g2 as text, B < a as text)
        fams = (FAMILIES if draw(st.integers(0, 2)) else TRICKY_FAMILIES)[:nfam]
        hidden = draw(st.permutations(fams))
        consistent = draw(st.integers(0, 5)) != 0
        syn = {}
        for leaf in leaves:
            sub = [f for f in hidden if draw(st.booleans())] or [draw(st.sampled_from(fams))]
            if not consistent:
                sub = list(draw(st.permutations(sub)))
            syn[leaf] = sub
        spec["syn"] = syn
        # through the API a synteny may be any sequence, not only the lists that JSON yields
        spec["syn_as"] = draw(st.sampled_from(["list", "list", "list", "tuple", "defaultdict"]))
        if consistent and spec["named"] in (0, 1) and nobj > 1 and draw(st.integers(0, 3)) == 0:
            # named == 0: the root is unnamed, so the prescribed root synteny cannot be written
            # in the document; it is attached through the API (keyed by the root node)
            spec["root_order"] = list(hidden)
    return spec


ORDER = st.integers(0, 20)


def _solve_op(draw, algos, ninputs):
    return {
        "op": "solve",
        "algo": draw(st.sampled_from(algos)),
        "input": draw(st.integers(0, ninputs - 1)),
        "policy": draw(st.sampled_from(["ALL", "ALL", "ANY"])),
        "order": draw(ORDER),
        "clock": draw(st.integers(0, 3)),
    }


@st.composite
def _case(draw, pid, tier):
    thorough = tier == "thorough"
    regime = "oracle"
    polytomy = False
    coherent = True
    single_family = False
    min_fam = 1
    if pid == "C01":
        labelled, algos = False, ["thl", "thl", "exh"]
    elif pid == "C02":
        labelled, algos = True, ["ext_spfs", "ext_spfs", "base_spfs"]
    elif pid == "C03":
        labelled, algos = True, ["superdtl", "superdtl", "base_uspfs"]
    elif pid == "C05":
        labelled = draw(st.booleans())
        algos = (["ext_spfs", "base_spfs", "superdtl", "base_uspfs"] if labelled
                 else ["thl", "exh"])
        polytomy = labelled and draw(st.integers(0, 7)) == 0
        if polytomy:
            algos = ["ext_spfs", "superdtl"]
    elif pid == "C04":
        labelled = draw(st.integers(0, 3)) != 0
        algos = list(ALGOS) if labelled else ["lca", "thl", "exh"]
        coherent = draw(st.booleans())
        regime = draw(st.sampled_from(["oracle", "large"]))
        polytomy = labelled and draw(st.integers(0, 3)) == 0
        if polytomy:
            algos = ["ext_spfs", "superdtl"]
    elif pid == "C08":
        labelled, algos, polytomy = True, ["ext_spfs", "superdtl"], True
    elif pid == "C09":
        labelled = draw(st.integers(0, 2)) != 0
        # the extended solvers contain the code paths of the base variants and more
        algos = (["ext_spfs", "ext_spfs", "superdtl", "superdtl", "base_spfs", "base_uspfs"]
                 if labelled else ["thl"])
        regime = "large"
    elif pid == "C10":
        labelled = True
        algos = list(ALGOS)
        regime = "large"
        single_family = draw(st.integers(0, 2)) == 0
    else:
        raise HarnessError(f"no E1 strategy for {pid}")

    if regime == "oracle":
        max_obj = 5 if not labelled else (5 if thorough else 4)
        max_sp = 5 if not labelled else 4
        max_fam = 4 if thorough else 3
        if pid == "C03" or (pid == "C05" and labelled and not polytomy and draw(st.booleans())):
            # the unordered solvers and their oracle are cheap: go deeper already in quick
            max_obj, max_fam = 5, 4
            if pid == "C05":
                algos = ["superdtl", "base_uspfs"]
        elif pid in ("C02", "C05") and labelled and not polytomy and draw(st.integers(0, 3)) == 0:
            # swarm mode "wide syntenies": few nodes, five or six families - segment
            # distances over parent syntenies with holes wider than one position
            max_obj, max_sp, max_fam = 3, 2, 6
            min_fam = 5
    else:
        max_obj, max_sp, max_fam = (8, 7, 4) if not labelled else (6, 5, 3)
    if polytomy:
        max_obj, max_sp, max_fam = 4, 4, 3
    if pid == "C10" and single_family and draw(st.booleans()):
        # swarm mode "deep species tree": with one family every solver is cheap, and C10's
        # stated bound is 8 species - transfers between a species five or more levels deep and
        # a shallow one exist only there (C10-thl-transfer-recipient-level-window)
        max_sp = 8
    ninputs = 1 if draw(st.integers(0, 3)) else 2
    chain = (pid == "C03" or (pid == "C05" and algos[0] == "superdtl")) \
        and draw(st.integers(0, 2)) == 0
    if pid == "C04" and labelled and not polytomy and draw(st.integers(0, 3)) == 0:
        # validity needs no brute-force oracle: deeper chains, more families
        chain, algos, max_obj, max_fam = True, ["superdtl", "superdtl", "base_uspfs"], 7, 5
    inputs = [
        draw(_input(labelled, max_obj, max_sp, max_fam, polytomy, coherent,
                    min_obj=2 if pid in ("C08",) else 1, single_family=single_family,
                    chain=chain, case_pairs=True, underscore_names=True, min_fam=min_fam))
        for _ in range(ninputs)
    ]
    ops = []
    nops = draw(st.integers(1, 6 if thorough else 4))
    for _ in range(nops):
        kind = draw(st.sampled_from(
            {
                "C01": ["solve", "solve", "solve", "gen", "gen", "relabel", "recost"],
                "C02": ["solve", "solve", "solve", "relabel", "recost", "resyn"],
                "C03": ["solve", "solve", "solve", "relabel", "recost", "resyn"],
                "C04": ["solve", "solve", "solve", "relabel", "gen", "draw", "recost", "resyn"],
                "C05": ["solve", "solve", "solve", "solve", "relabel", "draw", "recost",
                        "resyn"],
                "C08": ["solve", "solve", "gen", "relabel"],
                "C09": ["solve", "solve", "meta", "meta", "meta", "relabel", "gen", "draw",
                        "recost", "resyn"],
                "C10": ["solve", "solve", "solve", "relabel", "agree", "recost", "resyn"],
            }[pid]
        ))
        if kind == "solve":
            ops.append(_solve_op(draw, algos, ninputs))
        elif kind == "relabel":
            ops.append({"op": "relabel", "input": draw(st.integers(0, ninputs - 1))})
        elif kind == "draw":
            ops.append({"op": "draw", "input": draw(st.integers(0, ninputs - 1)),
                        "pick": draw(st.integers(0, 5))})
        elif kind == "recost":
            ops.append({"op": "recost", "input": draw(st.integers(0, ninputs - 1)),
                        "which": draw(st.integers(0, 4)),
                        "value": draw(st.sampled_from([0, 1, 2, 3, "inf"]))})
        elif kind == "resyn":
            ops.append({"op": "resyn", "input": draw(st.integers(0, ninputs - 1)),
                        "leaf": draw(st.integers(0, 7)), "bits": draw(st.integers(1, 63)),
                        "perm": draw(st.integers(0, 5))})
        elif kind == "agree":
            ops.append({"op": "agree", "input": draw(st.integers(0, ninputs - 1)),
                        "order": draw(ORDER)})
        elif kind == "meta":
            ops.append({
                "op": "meta",
                "algo": draw(st.sampled_from(algos)),
                "input": draw(st.integers(0, ninputs - 1)),
                "kind": draw(st.sampled_from(["reorder", "rename", "outgroup", "scale", "raise",
                                              "again", "inplace", "copy"])),
                "param": draw(st.integers(0, 1000)),
                "order": draw(ORDER),
                "order2": draw(ORDER),
                "all_algos": draw(st.booleans()),
            })
        else:
            what = "binarize" if (polytomy and draw(st.booleans())) else "generate_all"
            if labelled and not polytomy and pid != "C04":
                what = "binarize"
            ntasks = draw(st.integers(1, 3))
            sched = draw(st.lists(
                st.tuples(st.integers(0, 2), st.sampled_from(["step", "step", "step", "step",
                                                              "close", "throw", "drain"]),
                          st.integers(1, 4)).map(list),
                min_size=1, max_size=8))
            ops.append({"op": "gen", "what": what, "input": draw(st.integers(0, ninputs - 1)),
                        "tasks": ntasks, "sched": sched, "order": draw(ORDER),
                        "solve_between": draw(st.booleans())})
    return {"engine": NAME, "pid_hint": pid, "regime": regime, "inputs": inputs, "ops": ops}


def strategy(pid, tier):
    if pid == "C08":
        from . import e2_lazy

        return st.one_of(_case(pid, tier), e2_lazy.enum_case(tier))
    return _case(pid, tier)


# --------------------------------------------------------------------------------------
# building package inputs from specs
# --------------------------------------------------------------------------------------
def spec_costs(spec):
    c = dict(spec["costs"])
    if c["hgt"] == "inf":
        c["hgt"] = float("inf")
    return c


def spec_leaf_species(spec):
    return {leaf: leaf.split("_")[0] for leaf in ref.nested_leaves(spec["object"])}


def spec_colors(spec):
    """{clade: colour} of the object tree from the spec's pre-order indices."""
    if not spec.get("colors"):
        return {}
    clades = []

    def go(x):
        clades.append(tuple(sorted(ref.nested_leaves(x))))
        if not isinstance(x, str):
            for c in x:
                go(c)

    go(spec["object"])
    return {clades[int(k) % len(clades)]: v for k, v in spec["colors"].items()}


def spec_document(spec):
    """The documented dictionary form of an input spec."""
    model = _m["model"]
    costs = spec_costs(spec)
    onames = canon.internal_names(spec["object"], "O", spec["named"])
    snames = canon.internal_names(spec["species"], "S", spec["named"])
    if spec.get("cost_float"):
        # the same unit costs as floats (a JSON document that says 1.0 instead of 1)
        costs = {k: float(v) for k, v in costs.items()}
    doc = {
        "object_tree": ref.to_newick(spec["object"], onames, spec_colors(spec)),
        "species_tree": ref.to_newick(spec["species"], snames),
        "leaf_object_species": spec.get("leaf_species") or spec_leaf_species(spec),
        "costs": {
            model.NodeEvent.SPECIATION: costs["spe"],
            model.NodeEvent.DUPLICATION: costs["dup"],
            model.NodeEvent.HORIZONTAL_TRANSFER: (
                # "forbidden" is written either as a float or as the `infinity` package's
                # object, which the library itself uses for unreachable table cells
                __import__("infinity").inf
                if costs["hgt"] == float("inf") and spec.get("inf_as") == "infinity"
                else costs["hgt"]),
            model.EdgeEvent.FULL_LOSS: costs["floss"],
            model.EdgeEvent.SEGMENTAL_LOSS: costs["sloss"],
        },
    }
    if spec.get("infer"):
        del doc["leaf_object_species"]  # inferred from the `<species>_<suffix>` leaf names
    if spec.get("implicit_costs") and spec["costs"] == DEFAULT_COSTS and not spec.get("cost_float"):
        del doc["costs"]  # a document that relies on the documented default cost vector
    if spec["syn"] is not None:
        syn = {leaf: list(s) for leaf, s in spec["syn"].items()}
        if spec["root_order"] is not None:
            root_clade = tuple(sorted(ref.nested_leaves(spec["object"])))
            if root_clade in onames:
                syn[onames[root_clade]] = list(spec["root_order"])
        doc["leaf_syntenies"] = syn
    return doc


def build_input(spec):
    model = _m["model"]
    doc = spec_document(spec)
    if "leaf_syntenies" in doc:
        obj = model.SuperReconciliationInput.from_dict(doc)
        if spec["root_order"] is not None and obj.object_tree not in obj.leaf_syntenies:
            # unnamed root: the prescribed root synteny is given through the API
            obj.leaf_syntenies[obj.object_tree] = list(spec["root_order"])
        if spec.get("syn_as") == "tuple":
            for node in list(obj.leaf_syntenies):
                obj.leaf_syntenies[node] = tuple(obj.leaf_syntenies[node])
        elif spec.get("syn_as") == "defaultdict":
            # any Mapping will do for the field: one with __missing__ never raises KeyError
            import collections

            object.__setattr__(obj, "leaf_syntenies",
                               collections.defaultdict(list, obj.leaf_syntenies))
        return obj
    return model.ReconciliationInput.from_dict(doc)


E1_PROPS = ("C01", "C02", "C03", "C04", "C05", "C08", "C09", "C10")


def _clade_key(nested):
    """The clades of a tree as a sorted tuple: totally ordered, unlike a frozenset (keys end up
    in sorted event logs, which must not depend on the hash seed)."""
    return tuple(sorted(ref.nested_clades(nested)))


def _costs_of(rec_input):
    model = _m["model"]
    names = {model.NodeEvent.SPECIATION: "spe", model.NodeEvent.DUPLICATION: "dup",
             model.NodeEvent.HORIZONTAL_TRANSFER: "hgt", model.EdgeEvent.FULL_LOSS: "floss",
             model.EdgeEvent.SEGMENTAL_LOSS: "sloss"}
    return {names[k]: float(v) for k, v in rec_input.costs.items() if k in names}


class Slot:
    """One caller-owned input object of the history plus everything known about it."""

    def __init__(self, spec):
        self.spec = spec
        self.obj = build_input(spec)
        self.caller_costs = self.obj.costs
        if spec.get("own_costs"):
            # the caller builds the input through the constructor with a cost mapping of its
            # own, which it keeps (and may re-price later: `recost` goes through that mapping)
            import dataclasses

            self.caller_costs = dict(self.obj.costs)
            self.obj = dataclasses.replace(self.obj, costs=self.caller_costs)
        self.binary = ref.is_binary(spec["object"]) and ref.is_binary(spec["species"])
        self.results = {}  # (algo, policy) -> list of (order, cost, keys)
        self.last_outs = []
        self.dirty = set()  # what happened to the object since it was built
        self._ref = {}
        self.valid_keys = None

    def ref_input(self, object_nested=None, species_nested=None):
        on = object_nested if object_nested is not None else self.spec["object"]
        sn = species_nested if species_nested is not None else self.spec["species"]
        key = (repr(on), repr(sn))
        if key not in self._ref:
            leaf_species = self.spec.get("leaf_species") or spec_leaf_species(self.spec)
            self._ref[key] = canon.RefInput(on, sn, leaf_species, spec_costs(self.spec),
                                            self.spec["syn"], self.spec["root_order"])
        return self._ref[key]


# --------------------------------------------------------------------------------------
# executor
# --------------------------------------------------------------------------------------
@contextlib.contextmanager
def quiet():
    old = sys.stderr
    sys.stderr = io.StringIO()
    try:
        yield sys.stderr
    finally:
        sys.stderr = old


def oracle_size_ok(spec, mode):
    nobj = len(ref.nested_leaves(spec["object"]))
    nsp = len(ref.nested_leaves(spec["species"]))
    if mode is None:
        return nobj <= 5 and nsp <= 6
    nfam = len(set().union(*map(set, spec["syn"].values())))
    if nobj <= 3 and nsp <= 2:
        return nfam <= 6
    return nobj <= 5 and nsp <= 4 and nfam <= 4


def in_region(costs, labelled):
    if labelled:
        return costs["spe"] + 2 * costs["sloss"] <= costs["dup"] + 2 * costs["floss"]
    return costs["spe"] <= costs["dup"] + 2 * costs["floss"]


def call_solver(run, slot, algo, policy, order, clock, where):
    """Runs one solver under the given order / clock seeds.  Returns list of outputs."""
    dp = _m["dp"]
    fn = _m["algos"][algo]
    mode = MODE[algo]
    if mode is not None and slot.spec["syn"] is None:
        raise HarnessError("labelled algorithm on an unlabelled input")
    ORACLE.begin(order)
    CLOCK.begin(clock)
    prop = PROP_OF[algo]
    try:
        with quiet():
            if algo == "lca":
                outs = [fn(slot.obj)]
            else:
                outs = list(fn(slot.obj, dp.RetentionPolicy[policy]))
    except HarnessError:
        raise
    except Exception as exc:  # noqa: BLE001 - real code failed on a well-formed input
        run.check(False, (prop, "C04", "C05", "C08", "C09", "C10"), f"{prop}.solver-raised",
                  f"{where}: {algo}({policy}) raised {type(exc).__name__}: {exc!s:.300} on "
                  f"{slot.spec}")
        return None
    if ORACLE.permuted:
        run.probe("order_permuted", ORACLE.permuted)
        run.nontrivial = True
    if CLOCK.jumps:
        run.fault("clock_jump", CLOCK.jumps)
    return outs


def check_outputs(run, slot, algo, policy, outs, where, regime):
    """Validity (C04), optimality (C01-C03), ALL/ANY (C05), polytomy (C08) for one solve.
    Returns (cost, frozenset of keys)."""
    mode = MODE[algo]
    prop = PROP_OF[algo]
    spec = slot.spec
    labelled = mode is not None
    keys = []
    costs_seen = []
    orig_oclades = ref.nested_clades(spec["object"])
    orig_sclades = ref.nested_clades(spec["species"])
    onames = canon.internal_names(spec["object"], "O", spec["named"])
    snames = canon.internal_names(spec["species"], "S", spec["named"])
    for out in outs:
        otree, stree = out.input.object_tree, out.input.species_lca.tree
        on, sn = canon.ete_to_nested(otree), canon.ete_to_nested(stree)
        # C08: trees behind a returned solution are binary refinements of the caller's trees
        bin_ok = ref.is_binary(on) and ref.is_binary(sn)
        run.check(bin_ok, ("C08", "C04"), "C08.result-not-binary",
                  lambda: f"{where}: {algo} returned a solution over non-binary trees {on} {sn}")
        oc, sc = ref.nested_clades(on), ref.nested_clades(sn)
        run.check(orig_oclades <= oc and orig_sclades <= sc
                  and sorted(ref.nested_leaves(on)) == sorted(ref.nested_leaves(spec["object"]))
                  and sorted(ref.nested_leaves(sn)) == sorted(ref.nested_leaves(spec["species"])),
                  ("C08", "C04"), "C08.clades-lost",
                  lambda: f"{where}: {algo} solution trees {on} / {sn} lose clades or leaves of "
                          f"the input {spec['object']} / {spec['species']}")
        if not slot.binary and run.wants("C08"):
            oidx = canon.ete_clade_index(otree)
            sidx = canon.ete_clade_index(stree)
            got_on = {c: n.name for n, c in oidx.items()}
            got_sn = {c: n.name for n, c in sidx.items()}
            run.check(all(got_on.get(c) == nm for c, nm in onames.items())
                      and all(got_sn.get(c) == nm for c, nm in snames.items()),
                      ("C08",), "C08.names-lost",
                      lambda: f"{where}: {algo} solution renames original nodes: {got_on} vs "
                              f"{onames}; {got_sn} vs {snames}")
            want_col = spec_colors(spec)
            got_col = {c: n.color for n, c in oidx.items() if hasattr(n, "color")}
            run.check(all(got_col.get(c) == v for c, v in want_col.items()), ("C08",),
                      "C08.colours-lost",
                      lambda: f"{where}: {algo} solution colours {got_col}, the input had "
                              f"{want_col}")
            if want_col:
                run.probe("coloured_polytomy")
            leaf_sp = {v.name: s.name for v, s in out.input.leaf_object_species.items()}
            run.check(leaf_sp == (spec.get("leaf_species") or spec_leaf_species(spec)),
                      ("C08",), "C08.leaf-data",
                      lambda: f"{where}: leaf species of the refined input {leaf_sp}")
            if labelled:
                leaf_syn = {v.name: list(s) for v, s in out.input.leaf_syntenies.items()
                            if v.is_leaf()}
                run.check(leaf_syn == {k: list(v) for k, v in spec["syn"].items()},
                          ("C08",), "C08.leaf-data",
                          lambda: f"{where}: leaf syntenies of the refined input {leaf_syn}")
                # a prescribed root synteny is input data too: it must reach every resolution
                root_syn = out.input.leaf_syntenies.get(out.input.object_tree)
                want_root = spec["root_order"]
                run.check((root_syn is None and want_root is None) or
                          (root_syn is not None and want_root is not None
                           and list(root_syn) == list(want_root)),
                          ("C08",), "C08.root-synteny-lost",
                          lambda: f"{where}: the refined input prescribes root synteny "
                                  f"{root_syn}, the caller's input {want_root}")
        if not bin_ok:
            continue
        rin = slot.ref_input(on, sn)
        problem, recount = rin.check(out, mode)
        run.check(problem is None, ("C04", prop, "C05"), "C04.invalid-solution",
                  lambda: f"{where}: {algo}({policy}) returned an invalid solution: {problem}; "
                          f"input {spec}; mapping "
                          f"{canon.output_key(out, labelled)}")
        if problem is not None:
            continue
        if labelled:
            run.check(out.ordered == (mode == "ordered"), ("C04",), "C04.ordered-flag",
                      f"{where}: {algo} returned ordered={out.ordered}")
        got_cost = out.cost()
        if not (got_cost == recount):
            # is the returned object a solution of the problem the caller gave?  (a refined or
            # re-read input that carries other unit costs makes cost() evaluate another problem)
            want = spec_costs(spec)
            have = _costs_of(out.input)
            run.check(have == {k: float(v) for k, v in want.items()}, E1_PROPS,
                      f"{run.focus or prop}.solution-of-another-problem",
                      lambda: f"{where}: {algo}({policy}) returned a solution whose input carries "
                              f"unit costs {have}, the caller's input has {want}; input {spec}")
            # The cost the package reports for a solution it returned is not the cost of that
            # solution under the documented event model (independent recount).  Every solver
            # property is stated in terms of that model, and the solvers rank their candidates
            # with this evaluator, so this is reported as a violation of the property in focus
            # (it would be an error of the reference model only if the recount were wrong: the
            # same risk as for any oracle, and never seen on the unchanged tree).
            run.check(False, E1_PROPS, f"{run.focus or prop}.reported-cost-not-event-model-cost",
                      f"{where}: {algo}({policy}) returned a solution for which cost() = "
                      f"{got_cost} but the event-by-event recount under the documented model is "
                      f"{recount}: {canon.output_key(out, labelled)} on {spec}")
            raise HarnessError(
                f"MODEL-DISAGREEMENT {where}: package cost() = {got_cost}, independent recount "
                f"= {recount} for {canon.output_key(out, labelled)} on {spec}")
        run.check(recount < float("inf"), ("C04",), "C04.infinite-cost",
                  f"{where}: {algo} returned a solution of infinite cost")
        key = canon.output_key(out, labelled)
        if not slot.binary:
            # solutions of a multifurcating input live on different refinements: the trees they
            # refer to are part of what tells them apart
            key = (_clade_key(on), _clade_key(sn), key)
        keys.append(key)
        costs_seen.append(recount)
    if not outs:
        cost = None
    else:
        if len(costs_seen) != len(outs):
            # some output is not a valid solution (reported above when in focus): nothing
            # can be concluded from its cost by the other properties - except C09 and C10,
            # which relate what the package returns (reported cost, returned set) across
            # presentations / algorithms, whether or not it is right
            if run.focus in ("C09", "C10") and slot.binary:
                try:
                    raw_costs = [o.cost() for o in outs]
                    raw_keys = [canon.output_key(o, labelled) for o in outs]
                except Exception:  # noqa: BLE001 - not even evaluable: nothing to compare
                    return INVALID, frozenset()
                if raw_costs and all(c == raw_costs[0] for c in raw_costs):
                    run.probe("relations_on_unvalidated_output")
                    return raw_costs[0], frozenset(raw_keys)
            return INVALID, frozenset()
        cost = costs_seen[0]
        run.check(all(c == cost for c in costs_seen), ("C05", prop), "C05.costs-differ",
                  lambda: f"{where}: {algo}({policy}) returned solutions of different costs "
                          f"{sorted(set(costs_seen))}")
    run.check(len(keys) == len(set(keys)), ("C05",), "C05.duplicate-solution",
              lambda: f"{where}: {algo}({policy}) returned the same solution twice")
    if policy == "ANY" and algo != "lca":
        run.check(len(outs) <= 1, ("C05",), "C05.any-several",
                  lambda: f"{where}: {algo}(ANY) returned {len(outs)} solutions")
    keyset = frozenset(keys)

    # ---- brute-force oracle ----------------------------------------------------------
    if algo == "lca" or regime != "oracle" or not oracle_size_ok(spec, mode):
        return cost, keyset
    if not in_region(spec_costs(spec), labelled) and not spec.get("force_oracle"):
        # outside the coherent region only the listed F-COHERENCE witnesses are replayed
        return cost, keyset
    if not slot.binary:
        if not run.wants("C08", "C05", prop):
            return cost, keyset
        best = float("inf")
        n_ref = 0
        optimal = {}  # refinement pair -> its optimal set (canonical labellings if unordered)
        for on in ref.refinements(spec["object"]):
            for sn in ref.refinements(spec["species"]):
                rin = slot.ref_input(on, sn)
                res = rin.opt(mode, budget=20000)
                n_ref += 1
                if res is None:
                    run.probe("oracle_overcap")
                    return cost, keyset
                best = min(best, res["min"])
                if run.wants("C05") and res["min"] < float("inf"):
                    sols = res["sols"]
                    if mode == "unordered":
                        cres = rin.opt(mode, canonical=True, budget=20000)
                        if cres is None:
                            run.probe("oracle_overcap")
                            return cost, keyset
                        sols = cres["sols"] if cres["min"] == res["min"] else set()
                    optimal[_clade_key(on), _clade_key(sn)] = (res["min"], sols)
        run.probe("polytomy_oracle")
        if best == float("inf"):
            run.check(not outs, ("C08", prop), "C08.should-be-empty",
                      f"{where}: no refinement has a valid solution but {algo} returned one")
        else:
            run.check(outs and cost == best, ("C08", prop), "C08.not-optimum-over-refinements",
                      lambda: f"{where}: {algo} on multifurcating input {spec}: returned cost "
                              f"{cost}, optimum over the {n_ref} refinement pairs is {best}")
            if run.wants("C05") and outs:
                target = frozenset((oc, sc, k) for (oc, sc), (m, sols) in optimal.items()
                                   if m == best for k in sols)
                run.probe("polytomy_all_set")
                if policy == "ALL":
                    run.check(keyset == target, ("C05",), "C05.all-set-differs",
                              lambda: f"{where}: {algo}(ALL) on multifurcating input returned "
                                      f"{len(keyset)} solutions, the optimal set over the "
                                      f"{n_ref} refinement pairs has {len(target)}; missing "
                                      f"{sorted(target - keyset)[:1]}; extra "
                                      f"{sorted(keyset - target)[:1]}; input {spec}")
                else:
                    run.check(len(keyset) == 1 and keyset <= target, ("C05",),
                              "C05.any-not-in-all",
                              lambda: f"{where}: {algo}(ANY) on multifurcating input returned "
                                      f"{sorted(keyset)[:1]}, not a member of the optimal set "
                                      f"({len(target)}); input {spec}")
        return cost, keyset
    base = algo.startswith("base")
    rin = slot.ref_input()
    res = rin.opt(mode, restrict_lca=base, budget=60000)
    if res is None:
        run.probe("oracle_overcap")
        return cost, keyset
    run.probe("oracle_compared")
    if res["min"] == float("inf"):
        run.probe("no_valid_solution")
        run.check(not outs, (prop, "C05"), f"{prop}.should-be-empty",
                  lambda: f"{where}: the input {spec} has no valid solution but {algo} returned "
                          f"{sorted(keyset)[:2]}")
        return cost, keyset
    run.check(bool(outs), (prop, "C05"), "C05.empty-result",
              lambda: f"{where}: {algo}({policy}) returned nothing although the input {spec} "
                      f"has valid solutions (minimum {res['min']})")
    if not outs:
        return cost, keyset
    run.check(cost == res["min"], (prop,), f"{prop}.not-minimum",
              lambda: f"{where}: {algo}({policy}) returned cost {cost}, the minimum over all "
                      f"valid solutions is {res['min']}; input {spec}; returned "
                      f"{sorted(keyset)[:1]}; an optimum {sorted(res['sols'])[:1]}")
    target = res["sols"]
    if mode == "unordered":
        canon_res = rin.opt(mode, restrict_lca=base, canonical=True, budget=60000)
        target = canon_res["sols"] if canon_res["min"] == res["min"] else set()
    if len(target) > 1:
        run.probe("ties_in_all_set")
    if policy == "ALL":
        run.check(keyset == target, ("C05",), "C05.all-set-differs",
                  lambda: f"{where}: {algo}(ALL) returned {len(keyset)} solutions, the optimal "
                          f"set has {len(target)}; missing {sorted(target - keyset)[:2]}; extra "
                          f"{sorted(keyset - target)[:2]}; input {spec}")
    else:
        run.check(len(keyset) == 1 and keyset <= target, ("C05",), "C05.any-not-in-all",
                  lambda: f"{where}: {algo}(ANY) returned {sorted(keyset)} which is not one "
                          f"member of the optimal set ({len(target)} solutions); input {spec}")
    return cost, keyset


def record(run, slot, algo, policy, order, cost, keyset, where):
    """Cross-operation invariants inside one history (C09 'running again', C05 ANY in ALL)."""
    for (a, p), earlier in slot.results.items():
        if a != algo:
            continue
        for o2, c2, k2 in earlier:
            run.check(c2 == cost, ("C09", "C05"), "C09.cost-changed-on-rerun",
                      lambda: f"{where}: {algo} cost {cost} under order {order}/{policy}, "
                              f"earlier in this history {c2} under order {o2}/{p}; input "
                              f"{slot.spec}")
            if p == "ALL" and policy == "ALL":
                run.check(k2 == keyset, ("C09", "C05"), "C09.all-set-changed-on-rerun",
                          lambda: f"{where}: {algo}(ALL) set differs between order {o2} and "
                                  f"{order}: only earlier {sorted(k2 - keyset)[:2]}, only now "
                                  f"{sorted(keyset - k2)[:2]}; input {slot.spec}")
                if o2 != order:
                    run.probe("rerun_other_order")
            elif p == "ALL" and policy == "ANY":
                run.check(keyset <= k2, ("C05", "C09"), "C05.any-not-in-all",
                          lambda: f"{where}: {algo}(ANY, order {order}) = {sorted(keyset)} is "
                                  f"not in the ALL set computed earlier (order {o2})")
            elif p == "ANY" and policy == "ALL":
                run.check(k2 <= keyset, ("C05", "C09"), "C05.any-not-in-all",
                          lambda: f"{where}: earlier {algo}(ANY, order {o2}) = {sorted(k2)} is "
                                  f"not in the ALL set computed now (order {order})")
            elif p == "ANY" and policy == "ANY" and k2 != keyset:
                run.probe("any_pick_differs_across_orders")
    slot.results.setdefault((algo, policy), []).append((order, cost, keyset))


def tame_policy(slot, policy):
    """The number of co-optimal solutions explodes with degenerate costs on larger trees:
    beyond 6 object leaves only one solution is requested (costs are still compared)."""
    if policy == "ALL" and len(ref.nested_leaves(slot.spec["object"])) > 6:
        return "ANY"
    return policy


def do_solve(run, slots, op, idx, regime):
    slot = slots[op["input"] % len(slots)]
    algo, policy = op["algo"], op["policy"]
    if MODE[algo] is not None and slot.spec["syn"] is None:
        return
    if algo.startswith("base") or algo in ("lca", "thl", "exh"):
        if not slot.binary:
            return
    if MODE[algo] == "unordered" and slot.spec["root_order"] is not None:
        return  # a prescribed root order is a notion of the ordered model only
    if algo == "exh" and (len(ref.nested_leaves(slot.spec["object"])) > 6
                          or len(ref.nested_leaves(slot.spec["species"])) > 6):
        return  # exhaustive enumeration is exponential: kept to small inputs
    policy = tame_policy(slot, policy)
    where = f"op {idx} solve"
    outs = call_solver(run, slot, algo, policy, op["order"], op.get("clock", 0), where)
    if outs is None:
        return
    cost, keyset = check_outputs(run, slot, algo, policy, outs, where, regime)
    if cost == INVALID:
        if run.focus == "C09" and slot.dirty:
            # Not a solution of the caller's problem (C04's business) - but if the same problem
            # built afresh is solved properly, the history of the object changed the result,
            # which is what C09 forbids ("running the computation again")
            fresh = Slot(slot.spec)
            outs2 = call_solver(run, fresh, algo, policy, op["order"], 0,
                                where + " (fresh object)")
            if outs2 is not None:
                cost2, keys2 = check_outputs(run, fresh, algo, policy, outs2,
                                             where + " (fresh object)", regime)
                run.check(cost2 == INVALID, ("C09",), "C09.history-on-object-changes-result",
                          lambda: f"{where}: {algo}({policy}) on the caller's object after "
                                  f"{sorted(slot.dirty)} returns something that is not a "
                                  f"solution of its problem, while the same problem built "
                                  f"afresh is solved with cost {cost2}, {len(keys2)} solutions; "
                                  f"input {slot.spec}")
        run.event(idx, "solve", algo, policy, "invalid output")
        return
    if slot.binary:
        slot.last_outs = outs[:3]
    record(run, slot, algo, policy if algo != "lca" else "ALL", op["order"], cost, keyset, where)
    if slot.dirty and run.wants("C09", "C05", PROP_OF[algo]):
        # the object has a history (costs changed in place, label_internal, a drawing): the
        # same problem presented as a freshly built object must give the same answer
        fresh = Slot(slot.spec)
        outs2 = call_solver(run, fresh, algo, policy, op["order"], 0, where + " (fresh object)")
        if outs2 is not None:
            cost2, keys2 = check_outputs(run, fresh, algo, policy, outs2,
                                         where + " (fresh object)", regime)
            if cost2 != INVALID:
                run.probe("fresh_object_compared")
                run.check(cost2 == cost and (policy != "ALL" or keys2 == keyset),
                          ("C09", "C05", PROP_OF[algo]), "C09.history-on-object-changes-result",
                          lambda: f"{where}: {algo}({policy}) on the caller's object after "
                                  f"{sorted(slot.dirty)} gives cost {cost}, {len(keyset)} "
                                  f"solutions; on a freshly built object of the same problem "
                                  f"cost {cost2}, {len(keys2)} solutions; input {slot.spec}")
    run.event(idx, "solve", algo, policy, op["order"], ORACLE.consults, repr(cost),
              sorted(keyset))
    probe_case(run, slot, algo, outs)
    if run.focus == "C09":
        # "running the computation again": a solve is itself a piece of history of the object
        # (the solvers name nodes, and may leave other traces on it); where no brute-force
        # oracle runs, every later solve on the object is compared with a fresh one
        slot.dirty.add("solved by " + algo)


def probe_case(run, slot, algo, outs):
    spec = slot.spec
    c = spec["costs"]
    if c["hgt"] == "inf":
        run.probe("hgt_inf")
    if c["sloss"] == 0 and MODE[algo] is not None:
        run.probe("sloss_zero")
    labelled = MODE[algo] is not None
    if labelled and c["spe"] + 2 * c["sloss"] == c["dup"] + 2 * c["floss"]:
        run.probe("boundary_of_region")
    if not outs:
        run.probe("empty_result")
    if spec["root_order"] is not None and MODE[algo] == "ordered":
        run.probe("prescribed_root")
    if not slot.binary:
        run.probe("polytomy_input")
    used = {leaf.split("_")[0] for leaf in ref.nested_leaves(spec["object"])}
    if len(used) < len(ref.nested_leaves(spec["species"])):
        run.probe("species_without_object")
    if isinstance(spec["object"], str) or isinstance(spec["species"], str):
        run.probe("single_node_tree")
    for out in outs[:1]:
        for node in out.input.object_tree.traverse():
            if not node.is_leaf() and out.node_event(node).name == "HORIZONTAL_TRANSFER":
                run.probe("transfer_in_optimum")
                break


def do_draw(run, slots, op, idx):
    """D1: laying out a result writes colour features into the caller's own object tree."""
    slot = slots[op["input"] % len(slots)]
    if not slot.last_outs:
        return
    out = slot.last_outs[op["pick"] % len(slot.last_outs)]
    from .peer import PEER

    PEER.configure({"seed": 1 + op["pick"]})
    before = slot.obj.object_tree.write(format=8, format_root_node=True, features=["color"])
    try:
        _m["layout"].compute(out, _m["rmodel"].DrawParams())
    except Exception as exc:  # noqa: BLE001 - drawing is not what these properties are about
        run.event(idx, "draw", "raised " + type(exc).__name__)
        return
    after = slot.obj.object_tree.write(format=8, format_root_node=True, features=["color"])
    if before != after:
        run.probe("draw_added_colour")
    slot.dirty.add("draw")
    run.probe("draw_between_solves")
    run.nontrivial = True
    run.event(idx, "draw", before != after)


def do_recost(run, slots, op, idx):
    """D1: the caller changes a unit cost IN PLACE on the input object it keeps using (the
    costs mapping is an ordinary dict of a frozen dataclass; the package's own tests do this).
    Everything solved afterwards must be optimal for the new costs."""
    model = _m["model"]
    slot = slots[op["input"] % len(slots)]
    which = ["spe", "dup", "hgt", "floss", "sloss"][op["which"] % 5]
    value = op["value"]
    if value == "inf" and which != "hgt":
        return  # only the transfer cost may be infinite
    new_costs = dict(slot.spec["costs"])
    new_costs[which] = value
    if not in_region(new_costs, slot.spec["syn"] is not None) or new_costs == slot.spec["costs"]:
        return
    event = {"spe": model.NodeEvent.SPECIATION, "dup": model.NodeEvent.DUPLICATION,
             "hgt": model.NodeEvent.HORIZONTAL_TRANSFER, "floss": model.EdgeEvent.FULL_LOSS,
             "sloss": model.EdgeEvent.SEGMENTAL_LOSS}[which]
    slot.caller_costs[event] = float("inf") if value == "inf" else value
    slot.spec = dict(slot.spec, costs=new_costs)
    slot.results = {}   # earlier results belong to the old costs
    slot._ref = {}
    slot.last_outs = []
    slot.dirty.add("recost")
    run.probe("recost_in_place")
    run.nontrivial = True
    run.event(idx, "recost", which, value)


def do_resyn(run, slots, op, idx):
    """D1: the caller replaces the synteny of one leaf IN PLACE in the `leaf_syntenies`
    mapping of the input object it keeps using.  Everything solved afterwards must be a
    solution of the new problem."""
    import random

    slot = slots[op["input"] % len(slots)]
    syn = slot.spec["syn"]
    if syn is None:
        return
    leaves = sorted(syn)
    leaf = leaves[op["leaf"] % len(leaves)]
    if slot.spec["root_order"] is not None:
        fams = list(slot.spec["root_order"])
    else:
        fams = sorted(set().union(*map(set, syn.values())))
    chosen = [f for i, f in enumerate(fams) if op["bits"] % (2 ** len(fams)) >> i & 1]
    if not chosen:
        chosen = fams[:1]
    if slot.spec["root_order"] is None and op["perm"]:
        random.Random(op["perm"]).shuffle(chosen)  # may make the leaf orders inconsistent
    if chosen == list(syn[leaf]):
        return
    node = next(n for n in slot.obj.object_tree.get_leaves() if n.name == leaf)
    slot.obj.leaf_syntenies[node] = list(chosen)
    slot.spec = dict(slot.spec, syn=dict(syn, **{leaf: list(chosen)}))
    slot.results = {}   # earlier results belong to the old problem
    slot._ref = {}
    slot.last_outs = []
    slot.valid_keys = None
    slot.dirty.add("resyn")
    run.probe("resyn_in_place")
    run.nontrivial = True
    run.event(idx, "resyn", leaf, chosen)


def do_relabel(run, slots, op, idx):
    slot = slots[op["input"] % len(slots)]
    before = [n.name for n in slot.obj.object_tree.traverse()]
    slot.obj.label_internal()
    after = [n.name for n in slot.obj.object_tree.traverse()]
    if before != after:
        run.probe("label_internal_renamed")
        run.nontrivial = True
        slot.dirty.add("relabel")
    run.event(idx, "relabel", after)


# ---- lazy producers (S2) ----------------------------------------------------------------
def do_gen(run, slots, op, idx, regime):
    slot = slots[op["input"] % len(slots)]
    what = op["what"]
    exhaustive = _m["exhaustive"]
    if what == "generate_all":
        if not slot.binary:
            return
        nobj = len(ref.nested_leaves(slot.spec["object"]))
        nsp = len(ref.nested_leaves(slot.spec["species"]))
        if nobj > 5 or nsp > 6:
            return
        rin = slot.ref_input()
        if slot.valid_keys is None:
            slot.valid_keys = sorted(
                ref.mapping_key(m) for m in ref.all_mappings(rin.otree, rin.stree, rin.leafmap))
        expected = slot.valid_keys
        if len(expected) > 3000:
            run.probe("oracle_overcap")
            return
        make = lambda: exhaustive.generate_all(slot.obj)  # noqa: E731
        snap = lambda out: canon.output_key(out, False)  # noqa: E731
        props = ("C01",)
        label = "C01.generate_all"
    else:
        expected = sorted(
            (ref.nested_clades(on), ref.nested_clades(sn))
            for on in ref.refinements(slot.spec["object"])
            for sn in ref.refinements(slot.spec["species"])
        )
        expected = sorted(map(repr, expected))
        if len(expected) > 400:
            run.probe("oracle_overcap")
            return
        make = lambda: slot.obj.binarize()  # noqa: E731

        def snap(inp):
            return repr((ref.nested_clades(canon.ete_to_nested(inp.object_tree)),
                         ref.nested_clades(canon.ete_to_nested(inp.species_lca.tree))))

        props = ("C08",)
        label = "C08.binarize"
    where = f"op {idx} gen {what}"
    ORACLE.begin(op["order"])
    tasks = []
    for _ in range(op["tasks"]):
        tasks.append({"gen": make(), "yields": [], "objs": [], "state": "open"})
    if len(tasks) > 1:
        run.probe("two_generators_alive")
        run.nontrivial = True

    def step(task, n):
        for _ in range(n):
            if task["state"] != "open":
                return
            if len(task["yields"]) > len(expected) + 2:
                run.check(False, props, label + "-does-not-stop",
                          f"{where}: more than {len(expected)} + 2 yields")
                task["state"] = "over"
                return
            try:
                with quiet():
                    obj = next(task["gen"])
            except StopIteration:
                task["state"] = "done"
                return
            except Exception as exc:  # noqa: BLE001
                run.check(False, props, label + "-raised",
                          f"{where}: {type(exc).__name__}: {exc!s:.200}; input {slot.spec}")
                task["state"] = "failed"
                return
            task["yields"].append(snap(obj))
            task["objs"].append(obj)

    solved = False
    for t, action, n in op["sched"]:
        task = tasks[t % len(tasks)]
        if action == "step":
            step(task, n)
        elif action == "drain":
            step(task, len(expected) + 3)
        elif action == "close" and task["state"] == "open":
            task["gen"].close()
            task["state"] = "closed"
            run.fault("F1_cancel")
            if task["yields"]:
                run.probe("cancelled_midway")
        elif action == "throw" and task["state"] == "open":
            try:
                task["gen"].throw(SimFault("injected"))
            except SimFault:
                pass
            except StopIteration:
                pass
            except Exception as exc:  # noqa: BLE001
                run.check(False, props, label + "-throw-mangled",
                          f"{where}: throw() surfaced {type(exc).__name__}: {exc!s:.200}")
            task["state"] = "thrown"
            run.fault("F1_throw")
        if op.get("solve_between") and not solved and what == "generate_all":
            solved = True
            outs = call_solver(run, slot, "exh", "ALL", op["order"], 0, where + " (solve between)")
            if outs is not None:
                cost, keyset = check_outputs(run, slot, "exh", "ALL", outs, where, regime)
                if cost != INVALID:
                    record(run, slot, "exh", "ALL", op["order"], cost, keyset, where)
                ORACLE.begin(op["order"])
    # every task still open is drained: whatever happened to its siblings, it must enumerate
    # exactly the reference multiset
    for task in tasks:
        if task["state"] == "open":
            step(task, len(expected) + 3)
    for ti, task in enumerate(tasks):
        if task["state"] == "done":
            got = sorted(task["yields"])
            run.check(got == list(expected), props, label + "-multiset",
                      lambda: f"{where}: task {ti} yielded {len(got)} items "
                              f"({len(set(map(repr, got)))} distinct), reference has "
                              f"{len(expected)}; missing "
                              f"{[e for e in expected if e not in got][:2]}; extra/dup "
                              f"{[g for g in got if got.count(g) > 1 or g not in expected][:2]}; "
                              f"input {slot.spec}")
        elif task["state"] in ("closed", "thrown"):
            exp_multi = list(expected)
            ok = True
            for y in task["yields"]:
                if y in exp_multi:
                    exp_multi.remove(y)
                else:
                    ok = False
            run.check(ok, props, label + "-prefix",
                      lambda: f"{where}: cancelled task {ti} had yielded something outside the "
                              f"reference multiset")
        # deferred inspection: what was handed out must not have changed since
        now = [snap(o) for o in task["objs"]]
        run.check(now == task["yields"], props, label + "-yield-mutated-later",
                  lambda: f"{where}: task {ti}: objects changed after they were yielded")
        if what == "binarize":
            for o in task["objs"]:
                run.check(canon.tree_integrity(o.object_tree)
                          and canon.tree_integrity(o.species_lca.tree), props,
                          label + "-shared-subtree",
                          lambda: f"{where}: a yielded input shares nodes with another tree")
    run.event(idx, "gen", what, [(t["state"], len(t["yields"])) for t in tasks])


# ---- metamorphic operations (C09) ------------------------------------------------------
def derive(spec, kind, param):
    """-> (derived spec, key translation derived->base, expectation dict) or None."""
    rng = random.Random(param)
    new = {k: (dict(v) if isinstance(v, dict) else v) for k, v in spec.items()}
    new["costs"] = dict(spec["costs"])
    ident = lambda k: k  # noqa: E731
    labelled = spec["syn"] is not None
    if kind == "again":
        return new, ident, {"cost": "same", "set": "same"}
    if kind == "copy":
        # the same problem presented as a deep copy / a pickle round trip of the caller's object
        return new, ident, {"cost": "same", "set": "same", "copy_of_object": 1 + param % 2}
    if kind == "reorder":
        new["object"] = canon.nested_reorder(spec["object"], rng)
        new["species"] = canon.nested_reorder(spec["species"], rng)
        # internal names are assigned by pre-order index, so reordering children renames
        # internal nodes as well: keys are clade-based and unaffected
        return new, ident, {"cost": "same", "set": "same"}
    if kind == "rename":
        sleaves = ref.nested_leaves(spec["species"])
        pool = [f"Sp{i}x" for i in range(len(sleaves))]
        rng.shuffle(pool)
        smap = dict(zip(sleaves, pool))
        oleaves = ref.nested_leaves(spec["object"])
        ids = list(range(len(oleaves)))
        rng.shuffle(ids)
        omap = {leaf: f"q{ids[i]}w" for i, leaf in enumerate(oleaves)}
        new["species"] = canon.nested_map(spec["species"], lambda x: smap[x])
        new["object"] = canon.nested_map(spec["object"], lambda x: omap[x])
        new["leaf_species"] = {omap[leaf]: smap[(spec.get("leaf_species") or
                                                   spec_leaf_species(spec))[leaf]]
                               for leaf in oleaves}
        new["infer"] = False  # the new names do not follow the naming convention
        fmap = {}
        if labelled:
            fams = sorted(set().union(*map(set, spec["syn"].values())) |
                          set(spec["root_order"] or []))
            fpool = ["z9", "m10", "m2", "k", "f1"][: len(fams)]
            rng.shuffle(fpool)
            fmap = dict(zip(fams, fpool))
            new["syn"] = {omap[leaf]: [fmap[f] for f in s] for leaf, s in spec["syn"].items()}
            if spec["root_order"] is not None:
                new["root_order"] = [fmap[f] for f in spec["root_order"]]
        inv_s = {v: k for k, v in smap.items()}
        inv_o = {v: k for k, v in omap.items()}
        inv_f = {v: k for k, v in fmap.items()}

        def back(key):
            def mk(mkey):
                return tuple(sorted((tuple(sorted(inv_o[x] for x in oc)),
                                     tuple(sorted(inv_s[x] for x in sc))) for oc, sc in mkey))
            if not labelled:
                return mk(key)
            mkey, lkey = key
            return (mk(mkey), tuple(sorted((tuple(sorted(inv_o[x] for x in oc)),
                                            tuple(inv_f[f] for f in syn)) for oc, syn in lkey)))

        return new, back, {"cost": "same", "set": "same", "unordered_sets": True}
    if kind == "outgroup":
        if len(ref.nested_leaves(spec["species"])) >= 8:
            return None
        new["species"] = [spec["species"], "Z"] if rng.random() < 0.5 else ["Z", spec["species"]]
        strict = spec["costs"]["floss"] > 0
        return new, ident, {"cost": "same", "set": "same" if strict else "superset"}
    if kind == "scale":
        k = [2, 3, 0.5][param % 3]  # halves are exact in binary floating point
        new["costs"] = {n: (v if v == "inf" else v * k) for n, v in spec["costs"].items()}
        return new, ident, {"cost": ("times", k), "set": "same"}
    if kind == "raise":
        which = ["dup", "floss", "hgt", "spe", "sloss"][param % 5]
        if new["costs"][which] == "inf":
            which = "dup"
        new["costs"][which] = new["costs"][which] + 1 + (param // 5) % 2
        if not in_region(new["costs"], labelled):
            return None
        return new, ident, {"cost": "not-lower", "set": None}
    raise HarnessError(kind)


def do_inplace(run, slots, slot, op, idx, regime):
    """Solve, change one unit cost IN PLACE on the same object (same tree objects), solve
    again, and compare with a freshly built object of the new problem: anything remembered
    from the first run (tables, caches keyed by node or by input identity) shows here."""
    algo = op["algo"]
    where = f"op {idx} meta inplace"
    pol = tame_policy(slot, "ALL")
    outs0 = call_solver(run, slot, algo, pol, op["order"], 0, where + " before")
    if outs0 is None:
        return
    c0, k0 = check_outputs(run, slot, algo, pol, outs0, where + " before", regime)
    if c0 == INVALID:
        return
    record(run, slot, algo, pol, op["order"], c0, k0, where)
    which = ["floss", "dup", "floss", "hgt", "floss", "spe", "sloss"][op["param"] % 7]
    if slot.spec["costs"][which] == "inf":
        which = "floss"  # an infinite cost cannot be raised
    cur = slot.spec["costs"][which]
    value = cur + 1 + (op["param"] // 7) % 2
    before = dict(slot.spec["costs"])
    do_recost(run, slots, {"input": slots.index(slot), "which":
                           ["spe", "dup", "hgt", "floss", "sloss"].index(which),
                           "value": value}, idx)
    if slot.spec["costs"] == before:
        return
    outs1 = call_solver(run, slot, algo, pol, op["order2"], 0, where + " after")
    if outs1 is None:
        return
    c1, k1 = check_outputs(run, slot, algo, pol, outs1, where + " after", regime)
    if c1 == INVALID:
        return
    record(run, slot, algo, pol, op["order2"], c1, k1, where)
    fresh = Slot(slot.spec)
    outs2 = call_solver(run, fresh, algo, pol, op["order2"], 0, where + " fresh")
    if outs2 is None:
        return
    c2, k2 = check_outputs(run, fresh, algo, pol, outs2, where + " fresh", regime)
    if c2 == INVALID:
        return
    run.probe("meta_inplace")
    run.nontrivial = True
    run.check(c1 == c2 and (pol != "ALL" or k1 == k2), ("C09",),
              "C09.history-on-object-changes-result",
              lambda: f"{where}: {algo} after raising {which} to {value} in place on an object "
                      f"already solved once: cost {c1}, {len(k1)} solutions; the same problem "
                      f"built afresh: cost {c2}, {len(k2)} solutions; input {slot.spec}")
    run.check(c0 is None or c1 is None or c1 >= c0, ("C09",), "C09.raise-lowers-minimum",
              lambda: f"{where}: {algo} minimum {c0} -> {c1} after raising {which}")
    run.event(idx, "inplace", algo, which, repr(c0), repr(c1), repr(c2))


def do_meta(run, slots, op, idx, regime):
    if op.get("all_algos") and op["kind"] not in ("inplace",):
        # the relation is checked for every solver the input is compatible with, not only
        # for the drawn one (a relation fails for one algorithm in a hundred inputs or less)
        slot = slots[op["input"] % len(slots)]
        labelled = slot.spec["syn"] is not None
        family = (["ext_spfs", "superdtl", "base_spfs", "base_uspfs"]
                  if MODE[op["algo"]] is not None and labelled else
                  (["thl"] if len(ref.nested_leaves(slot.spec["object"])) > 6 else ["thl", "exh"]))
        for algo in family:
            _do_meta(run, slots, dict(op, algo=algo), idx, regime)
        return
    _do_meta(run, slots, op, idx, regime)


def _do_meta(run, slots, op, idx, regime):
    slot = slots[op["input"] % len(slots)]
    algo = op["algo"]
    mode = MODE[algo]
    if mode is not None and slot.spec["syn"] is None:
        return
    if not slot.binary:
        return
    if not in_region(slot.spec["costs"], mode is not None):
        return
    if op["kind"] == "inplace":
        return do_inplace(run, slots, slot, op, idx, regime)
    derived = derive(slot.spec, op["kind"], op["param"])
    if derived is None:
        return
    new_spec, back, expect = derived
    where = f"op {idx} meta {op['kind']}"
    pol = tame_policy(slot, "ALL")
    if pol != "ALL":
        expect = dict(expect, set=None)
    outs1 = call_solver(run, slot, algo, pol, op["order"], 0, where + " base")
    if outs1 is None:
        return
    cost1, keys1 = check_outputs(run, slot, algo, pol, outs1, where + " base", regime)
    if cost1 == INVALID:
        return
    record(run, slot, algo, pol, op["order"], cost1, keys1, where)
    if op["kind"] == "again":
        slot2 = slot
        run.probe("rerun_same_object")
    else:
        slot2 = Slot(new_spec)
        if expect.get("copy_of_object"):
            import copy
            import pickle

            try:
                slot2.obj = (copy.deepcopy(slot.obj) if expect["copy_of_object"] == 1
                             else pickle.loads(pickle.dumps(slot.obj)))
            except Exception as exc:  # noqa: BLE001
                run.check(False, ("C09",), "C09.input-not-copyable",
                          f"{where}: copying the caller's input object raised "
                          f"{type(exc).__name__}: {exc!s:.200}")
        slots.append(slot2)
    outs2 = call_solver(run, slot2, algo, pol, op["order2"], 0, where + " derived")
    if outs2 is None:
        return
    cost2, keys2 = check_outputs(run, slot2, algo, pol, outs2, where + " derived", regime)
    if cost2 == INVALID:
        return
    if slot2 is not slot:
        record(run, slot2, algo, pol, op["order2"], cost2, keys2, where)
    elif pol == "ALL":
        run.check(keys1 == keys2, ("C09",), "C09.all-set-changed-on-rerun",
                  lambda: f"{where}: {algo}(ALL) on the same object under orders {op['order']} "
                          f"and {op['order2']}: {len(keys1)} vs {len(keys2)} solutions; only "
                          f"first {sorted(keys1 - keys2)[:2]}; only second "
                          f"{sorted(keys2 - keys1)[:2]}; input {slot.spec}")
    run.nontrivial = True
    run.probe("meta_" + op["kind"])
    detail = lambda: (f"{where}: {algo}: base input {slot.spec} -> cost {cost1}, "  # noqa: E731
                      f"{len(keys1)} solutions; derived input {new_spec} -> cost {cost2}, "
                      f"{len(keys2)} solutions")
    if expect["cost"] == "same":
        run.check(cost1 == cost2, ("C09",), f"C09.{op['kind']}-changes-cost", detail)
    elif expect["cost"] == "not-lower":
        run.check((cost1 is None and cost2 is None) or
                  (cost1 is not None and cost2 is not None and cost2 >= cost1), ("C09",),
                  "C09.raise-lowers-minimum", detail)
    else:
        k = expect["cost"][1]
        run.check((cost1 is None and cost2 is None) or
                  (cost1 is not None and cost2 is not None and cost2 == cost1 * k), ("C09",),
                  "C09.scale-not-linear", detail)
    if expect["set"] is not None:
        try:
            back2 = frozenset(back(k) for k in keys2)
        except KeyError as exc:
            raise HarnessError(f"key translation failed: {exc!r}") from exc
        base_keys = keys1
        if expect.get("unordered_sets") and mode == "unordered":
            # sort_synteny's canonical order legitimately follows the new names
            norm = lambda ks: frozenset(  # noqa: E731
                (m, tuple(sorted((c, tuple(sorted(s))) for c, s in lab))) for m, lab in ks)
            back2, base_keys = norm(back2), norm(keys1)
        if expect["set"] == "same":
            run.check(back2 == base_keys, ("C09",), f"C09.{op['kind']}-changes-optimal-set",
                      lambda: detail() + f"; only base {sorted(base_keys - back2)[:2]}; only "
                                         f"derived {sorted(back2 - base_keys)[:2]}")
        else:
            run.check(base_keys <= back2, ("C09",), f"C09.{op['kind']}-loses-optima",
                      lambda: detail() + f"; lost {sorted(base_keys - back2)[:2]}")
    run.event(idx, "meta", op["kind"], algo, repr(cost1), repr(cost2), len(keys1), len(keys2))


# ---- cross-algorithm agreement (C10) ---------------------------------------------------
def do_agree(run, slots, op, idx, regime):
    slot = slots[op["input"] % len(slots)]
    if not slot.binary:
        return
    spec = slot.spec
    labelled = spec["syn"] is not None
    if not in_region(spec_costs(spec), labelled):
        return
    where = f"op {idx} agree"
    algos = list(ALGOS) if labelled else ["lca", "thl"]
    if spec["root_order"] is not None:
        algos = [a for a in algos if MODE[a] != "unordered"]
    rng = random.Random(op["order"])
    rng.shuffle(algos)  # who runs first on the shared input object is a drawn decision
    cost = {}
    for algo in algos:
        outs = call_solver(run, slot, algo, "ANY", rng.randrange(0, 20), 0, where)
        if outs is None:
            return
        c, keys = check_outputs(run, slot, algo, "ANY", outs, where, regime)
        if c == INVALID:
            return
        if algo != "lca":
            record(run, slot, algo, "ANY", 0, c, keys, where)
        cost[algo] = c
    run.nontrivial = True
    inf = float("inf")
    val = lambda a: inf if cost.get(a) is None else cost[a]  # noqa: E731
    detail = lambda: f"{where}: costs {cost} on {spec}"  # noqa: E731
    run.check(val("thl") <= val("lca"), ("C10",), "C10.thl-above-lca", detail)
    if spec["costs"]["hgt"] == "inf":
        run.check(val("thl") == val("lca"), ("C10",), "C10.thl-differs-from-lca-without-transfers",
                  detail)
        run.probe("hgt_inf")
    if labelled:
        run.check(val("ext_spfs") <= val("base_spfs"), ("C10",), "C10.ext-above-base", detail)
        if "superdtl" in cost:
            run.check(val("superdtl") <= val("base_uspfs"), ("C10",), "C10.ext-above-base", detail)
            run.check(val("superdtl") <= val("ext_spfs"), ("C10",), "C10.unordered-above-ordered",
                      detail)
            run.check(val("base_uspfs") <= val("base_spfs"), ("C10",),
                      "C10.unordered-above-ordered", detail)
        fams = set().union(*map(set, spec["syn"].values()))
        if len(fams) == 1 and all(len(s) == 1 for s in spec["syn"].values()) \
                and spec["root_order"] is None:
            run.probe("single_family")
            run.check(val("ext_spfs") == val("thl") == val("superdtl"), ("C10",),
                      "C10.single-family-optima-differ", detail)
            run.check(val("base_spfs") == val("lca") == val("base_uspfs"), ("C10",),
                      "C10.single-family-base-differs-from-lca", detail)
    run.event(idx, "agree", sorted((a, repr(c)) for a, c in cost.items()))


def e7_check(run, case, hashseeds, paddings, order):
    """Instrumented in-process run vs fresh uninstrumented interpreters (C09)."""
    from . import e7_fresh

    plain_case = {k: v for k, v in case.items() if k != "e7"}
    mine = observe(plain_case, order)
    results, aslr_off = e7_fresh.sweep([plain_case], hashseeds, paddings)
    labelled = [("instrumented in-process run (order %d)" % order, mine)] + [
        (label, obs[0]) for label, obs in results]
    for i in range(len(labelled)):
        for j in range(i):
            problem = compare_observations(labelled[j][1], labelled[i][1], labelled[j][0],
                                           labelled[i][0])
            run.check(problem is None, ("C09",), "C09.differs-across-processes",
                      lambda: f"{problem}; case {plain_case}")
    run.fault("fresh_process", len(results))
    if not aslr_off:
        run.probe("setarch_unavailable")
    return run


def post_phase(pid, tier, base_seed, cases):
    """Engine E7 after the seeded search of C09: sweep sampled cases through fresh
    interpreters running the uninstrumented package under real hash seeds."""
    if pid != "C09" or not cases:
        return None
    from . import e7_fresh
    from .kernel import derive_seed

    limit = 240 if tier == "thorough" else 96
    cases = [c for c in cases if any(o["op"] in ("solve", "meta", "agree") for o in c["ops"])]
    cases = cases[:limit]
    nconf = 4 if tier == "thorough" else 3
    hashseeds = [derive_seed(base_seed, "e7-hash", i) % 4294967295 for i in range(nconf)]
    paddings = [0] + [derive_seed(base_seed, "e7-pad", i) % 200000 for i in range(1, nconf)]
    mine = [observe(c, 2 + i % 11) for i, c in enumerate(cases)]
    results, aslr_off = e7_fresh.sweep(cases, hashseeds, paddings)
    out = {"evaluations": len(cases) * (1 + len(results)), "checks": 0,
           "faults": {"fresh_process": len(results)}, "probes": {"e7_cases": len(cases)},
           "failure": None, "digests": []}
    if not aslr_off:
        out["probes"]["setarch_unavailable"] = 1
    for ci, case in enumerate(cases):
        sides = [("instrumented in-process run", mine[ci])] + [
            (label, obs[ci]) for label, obs in results]
        for i in range(len(sides)):
            for j in range(i):
                out["checks"] += 1
                problem = compare_observations(sides[j][1], sides[i][1], sides[j][0], sides[i][0])
                if problem is not None and out["failure"] is None:
                    out["failure"] = {
                        "case": dict(case, e7={"hashseeds": hashseeds, "paddings": paddings,
                                               "order": 2 + ci % 11}),
                        "label": "C09.differs-across-processes",
                        "message": problem,
                    }
        out["digests"].append("e7-" + kernel_case_digest(case))
    return out


def kernel_case_digest(case):
    from .kernel import case_digest

    return case_digest(case)


def execute(case, focus=None):
    run = Run(focus)
    ORACLE.begin(0)
    if case.get("e7"):
        cfg = case["e7"]
        return e7_check(run, case, cfg["hashseeds"], cfg["paddings"], cfg["order"])
    if case.get("kind") == "enum":
        from . import e2_lazy

        e2_lazy.execute_enum(run, case, _m)
        return run
    slots = [Slot(spec) for spec in case["inputs"]]
    for slot in slots:
        # the object built from the documented dictionary form is the problem that was written
        have = _costs_of(slot.obj)
        want = {k: float(v) for k, v in spec_costs(slot.spec).items()}
        run.check(have == want, E1_PROPS, f"{run.focus or 'C04'}.input-document-misread",
                  lambda: f"from_dict built an input with unit costs {have} from a document "
                          f"that says {want}")
    regime = case["regime"]
    for idx, op in enumerate(case["ops"]):
        kind = op["op"]
        if kind == "solve":
            do_solve(run, slots, op, idx, regime)
        elif kind == "relabel":
            do_relabel(run, slots, op, idx)
        elif kind == "draw":
            do_draw(run, slots, op, idx)
        elif kind == "recost":
            do_recost(run, slots, op, idx)
        elif kind == "resyn":
            do_resyn(run, slots, op, idx)
        elif kind == "gen":
            do_gen(run, slots, op, idx, regime)
        elif kind == "meta":
            do_meta(run, slots, op, idx, regime)
        elif kind == "agree":
            do_agree(run, slots, op, idx, regime)
        else:
            raise HarnessError(f"unknown op {kind}")
    if len(case["ops"]) > 1:
        run.nontrivial = True
    return run


def describe(pid):
    texts = {
        "C01": "unlabelled binary inputs (object tree 1-5 leaves, species tree 1-5 leaves, any leaf "
               "assignment, costs in the coherent region, hgt possibly infinite); histories of "
               "thl/exh solves (ALL/ANY, drawn set-iteration order and tqdm clock), explicit "
               "label_internal, and 1-3 generate_all enumerations alive on the same input object, "
               "stepped in a drawn interleaving with close()/throw() faults and a solve in between; "
               "every result is validated and compared with the brute-force optimum; every drained "
               "enumeration with the reference set of valid mappings (each exactly once), objects "
               "re-inspected at the end of the run",
        "C02": "ordered labelled binary inputs (<=4 (5) object leaves, <=4 species leaves, <=3 (4) "
               "families, consistent or inconsistent leaf orders, optional prescribed root order, "
               "coherent costs incl. sloss 0); histories of ext_spfs/base_spfs solves vs the "
               "brute-force optimum over mappings x root orders x labellings (base: LCA mapping)",
        "C03": "unordered labelled binary inputs, superdtl/base_uspfs histories vs the brute-force "
               "optimum over all mappings and ALL valid family-set labellings (not only canonical)",
        "C04": "all seven algorithms, both policies, binary and multifurcating inputs, arbitrary "
               "non-negative costs (coherent or not), oracle-size and larger inputs; every returned "
               "solution passes the structural validity predicates of the reference model",
        "C05": "oracle-size inputs, thl/exh/base_spfs/ext_spfs/base_uspfs/superdtl, several ALL and "
               "ANY solves of the same input object under different drawn iteration orders; ALL "
               "must equal the brute-force optimal set (unordered: canonical labellings), ANY one "
               "member of it",
        "C08": "multifurcating labelled inputs (<=4+4 leaves), ext_spfs/superdtl vs the minimum of "
               "the brute-force optimum over all refinement pairs; returned trees binary, keep "
               "clades, names, leaf data; binarize() enumerations stepped lazily in drawn "
               "interleavings with faults vs the independent refinement generator",
        "C09": "larger inputs; metamorphic re-solves (child reorder, bijective renaming, outgroup, "
               "cost scaling, one cost raised, plain re-run on the same object) under two "
               "different drawn iteration orders, plus repeats later in the history after other "
               "operations (label_internal, enumerations)",
        "C10": "all seven algorithms run in a drawn order on one shared input object; inequalities "
               "and the single-family collapse compared on the independently recounted costs",
    }
    return {
        "rule": "Hypothesis-drawn case = 1-2 inputs + history of 1-4 (6) operations: "
                + texts[pid] + "; between solves the caller may change a unit cost or a leaf "
                "synteny in place on the object it keeps using, after which every solve is also "
                "compared with the same problem built afresh. Non-trivial: an iteration order was permuted, a fault fired, "
                "two producers were alive at once, or the history has more than one operation; "
                "distinct = distinct case digest.",
        "real": ["superrec2.compute.*, model.*, utils.* compiled from the working tree (sets "
                 "routed to SimSet)", "ete3", "tqdm rendering (on the simulated clock, stderr "
                 "captured)", "infinity"],
        "stub": ["iteration order of sets (order oracle)", "wall clock read by tqdm",
                 "tqdm monitor thread (disabled)", "stderr"],
        "assumptions": [
            "cost vectors inside the coherent region except for C04 (validity only) and the "
            "listed F-COHERENCE witnesses",
            "brute-force reference bounded to <=5 object leaves, <=4 species leaves (6 unlabelled), "
            "<=4 families; larger inputs are checked by relations only",
            "package cost() is compared with the independent recount on every returned solution; "
            "a disagreement stops the check as a harness error (exit 2), never as held",
        ],
        "probes_expected": {
            "C01": ["order_permuted", "oracle_compared", "ties_in_all_set", "hgt_inf",
                    "transfer_in_optimum", "species_without_object", "two_generators_alive",
                    "cancelled_midway", "F1_cancel", "F1_throw", "label_internal_renamed"],
            "C02": ["order_permuted", "oracle_compared", "ties_in_all_set", "hgt_inf",
                    "transfer_in_optimum", "sloss_zero", "prescribed_root", "empty_result",
                    "boundary_of_region", "clock_jump", "recost_in_place", "resyn_in_place"],
            "C03": ["order_permuted", "oracle_compared", "ties_in_all_set", "hgt_inf",
                    "transfer_in_optimum", "sloss_zero", "boundary_of_region",
                    "recost_in_place", "resyn_in_place"],
            "C04": ["order_permuted", "polytomy_input", "sloss_zero", "transfer_in_optimum",
                    "recost_in_place", "resyn_in_place"],
            "C05": ["order_permuted", "oracle_compared", "ties_in_all_set", "rerun_other_order",
                    "any_pick_differs_across_orders", "polytomy_all_set"],
            "C08": ["order_permuted", "polytomy_input", "polytomy_oracle", "two_generators_alive",
                    "cancelled_midway", "F1_cancel", "F1_throw"],
            "C09": ["order_permuted", "meta_again", "meta_reorder", "meta_rename",
                    "meta_outgroup", "meta_scale", "meta_raise", "meta_inplace", "meta_copy",
                    "fresh_object_compared", "rerun_other_order", "fresh_process"],
            "C10": ["order_permuted", "single_family", "hgt_inf", "transfer_in_optimum"],
        }[pid],
    }


# --------------------------------------------------------------------------------------
# E7: fresh-process sweep of the UNINSTRUMENTED package under real hash seeds
# --------------------------------------------------------------------------------------
def observe(case, order=0):
    """Oracle-free execution of the solve / meta / agree operations of a case.  Returns one
    canonical observation per solver call: (op index, slot, algo, policy, cost, keys)."""
    dp = _m["dp"]
    slots = [Slot(spec) for spec in case["inputs"]]
    obs = []
    ORACLE.begin(order)  # only matters when the package is instrumented

    def call(slot_idx, slot, algo, policy, idx):
        mode = MODE[algo]
        if mode is not None and slot.spec["syn"] is None:
            return
        if not slot.binary and (algo.startswith("base") or mode is None):
            return
        if mode == "unordered" and slot.spec["root_order"] is not None:
            return
        if algo == "exh" and (len(ref.nested_leaves(slot.spec["object"])) > 6
                              or len(ref.nested_leaves(slot.spec["species"])) > 6):
            return
        policy = tame_policy(slot, policy)
        try:
            with quiet():
                if algo == "lca":
                    outs = [_m["algos"][algo](slot.obj)]
                else:
                    outs = list(_m["algos"][algo](slot.obj, dp.RetentionPolicy[policy]))
        except Exception as exc:  # noqa: BLE001
            obs.append([idx, slot_idx, algo, policy, "raised " + type(exc).__name__, None])
            return
        keys = sorted(repr(canon.output_key(o, mode is not None)) for o in outs)
        costs = sorted({repr(o.cost()) for o in outs})
        obs.append([idx, slot_idx, algo, policy, costs, keys])

    for idx, op in enumerate(case["ops"]):
        if op["op"] == "solve":
            si = op["input"] % len(slots)
            call(si, slots[si], op["algo"], op["policy"], idx)
        elif op["op"] == "relabel":
            slots[op["input"] % len(slots)].obj.label_internal()
        elif op["op"] == "meta":
            si = op["input"] % len(slots)
            slot = slots[si]
            if not slot.binary or not in_region(slot.spec["costs"], MODE[op["algo"]] is not None):
                continue
            if op["kind"] == "inplace":
                call(si, slot, op["algo"], "ALL", idx)
                continue
            derived = derive(slot.spec, op["kind"], op["param"])
            if derived is None:
                continue
            call(si, slot, op["algo"], "ALL", idx)
            if op["kind"] == "again":
                call(si, slot, op["algo"], "ALL", idx)
            else:
                slots.append(Slot(derived[0]))
                call(len(slots) - 1, slots[-1], op["algo"], "ALL", idx)
        elif op["op"] == "agree":
            si = op["input"] % len(slots)
            for algo in (ALGOS if slots[si].spec["syn"] is not None else ("lca", "thl")):
                call(si, slots[si], algo, "ANY", idx)
    return obs


def compare_observations(a, b, label_a, label_b):
    """-> problem string or None.  ALL sets and costs must agree exactly; an ANY answer must
    have the same cost and, where an ALL set of the same (slot, algo) is known on either side,
    belong to it."""
    if len(a) != len(b):
        return f"{label_a} made {len(a)} solver calls, {label_b} made {len(b)}"
    all_sets = {}
    for side in (a, b):
        for idx, si, algo, policy, costs, keys in side:
            if policy == "ALL" and keys is not None:
                all_sets.setdefault((si, algo), set()).update(keys)
    for x, y in zip(a, b):
        if x[:4] != y[:4]:
            return f"call sequence differs: {x[:4]} vs {y[:4]}"
        if x[4] != y[4]:
            return (f"op {x[0]} {x[2]}({x[3]}) on input {x[1]}: cost {x[4]} in {label_a}, "
                    f"{y[4]} in {label_b}")
        if x[3] == "ALL" and x[5] != y[5]:
            only_a = sorted(set(x[5] or []) - set(y[5] or []))[:1]
            only_b = sorted(set(y[5] or []) - set(x[5] or []))[:1]
            return (f"op {x[0]} {x[2]}(ALL) on input {x[1]}: optimal sets differ between "
                    f"{label_a} ({len(x[5] or [])}) and {label_b} ({len(y[5] or [])}); only "
                    f"{label_a}: {only_a}; only {label_b}: {only_b}")
        if x[3] == "ANY" and x[2] != "lca":
            known = all_sets.get((x[1], x[2]))
            for side, lab in ((x, label_a), (y, label_b)):
                if known and side[5] and not set(side[5]) <= known:
                    return (f"op {side[0]} {side[2]}(ANY) on input {side[1]} in {lab} is not a "
                            f"member of the ALL set seen in this history")
    return None
