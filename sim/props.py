"""Registry: property id -> engine, budgets, manifest texts."""
from . import e1_solver, e3_entry, e4_cli, e5_render, e6_order


def _budget(batches, examples, wall_s):
    return {"batches": batches, "examples": examples, "wall_s": wall_s}


_LEVEL_NOTE = (
    "Trusted base: CPython 3.12, Hypothesis 6.168 (generation + shrinking), the reference "
    "models in sim/ref.py (cross-checked against the package evaluator on every object), the "
    "SimSet instrumentation (guarded by the policy-0 vs plain-import differential and the "
    "fresh-process sweep). Sampling, not proof: a clean run is evidence within the stated bounds."
)

PROPS = {
    "C16": {
        "id": "C16",
        "engine": e3_entry,
        "quick": _budget(64, 1200, 60),
        "thorough": _budget(960, 2500, 900),
        "technique": "deterministic simulation: seeded histories of offers/reads/combines on shared "
                     "entries and table cells under simulator-chosen set iteration orders, checked "
                     "operation by operation against a list-of-offers reference model",
        "level_text": "Seeded search over update/read/combine histories (the property's own "
                      "quantifier) with every iteration order of the retained-tag sets decided by "
                      "the simulator; each operation is compared with an executable reference "
                      "model. Exploration is the right level: the state space is small but "
                      "unbounded in history length, and the hazards are order- and history-"
                      "dependent.",
        "design_ref": "DESIGN.md section 6 (C16), section 5 (E3)",
        "level_note": _LEVEL_NOTE,
    },
    "C19": {
        "id": "C19",
        "engine": e6_order,
        "quick": _budget(64, 1150, 60),
        "thorough": _budget(960, 3000, 900),
        "technique": "deterministic simulation: seeded digraphs and call histories with every set "
                     "iteration order (vertex set, successor sets, backtracking frontier) chosen by "
                     "the simulator, results compared with permutation filtering",
        "level_text": "The enumeration order inside toposort_all/toposort is hash-order dependent "
                      "in a real process; the simulator owns that order, draws it per call and "
                      "checks the multiset of orderings against an independent enumeration, plus "
                      "that the caller's graph survives a history of calls. Exploration with "
                      "shrinking replay files.",
        "design_ref": "DESIGN.md section 6 (C19), section 5 (E6)",
        "level_note": _LEVEL_NOTE,
    },
    "C20": {
        "id": "C20",
        "engine": e6_order,
        "quick": _budget(64, 1200, 60),
        "thorough": _budget(960, 2500, 900),
        "technique": "deterministic simulation: seeded union/find/binary histories against a "
                     "partition model, and triple decomposition / supertree reconstruction under "
                     "simulator-chosen set pop and iteration orders against an enumeration of all "
                     "binary trees",
        "level_text": "Union histories (find mutates by path compression) are checked operation by "
                      "operation against a partition model; BreakUp's set.pop() order and the "
                      "list(set) orders feeding OneTree/AllTrees are simulator decisions, and the "
                      "results are compared with brute-force enumeration of binary trees. "
                      "Exploration with shrinking replay files.",
        "design_ref": "DESIGN.md section 6 (C20), section 5 (E6)",
        "level_note": _LEVEL_NOTE,
    },
}

_E1 = {
    "C01": ("General DTL optimum and exhaustive enumerator",
            "seeded histories of thl/exh solves, in-place re-pricing and interleaved, "
            "cancellable generate_all enumerations on shared input objects under "
            "simulator-chosen set orders, against a brute-force DTL reference"),
    "C02": ("Ordered super-reconciliation optimum",
            "seeded solve histories of ext_spfs/base_spfs under simulator-chosen orders (root "
            "orders come from toposort_all over sets) against a brute-force ordered-labelling "
            "reference"),
    "C03": ("SuperDTL optimum",
            "seeded solve histories of superdtl/base_uspfs (decoders are generators sharing sets) "
            "against a brute-force reference over all valid family-set labellings"),
    "C04": ("Structural validity of every returned solution",
            "seeded solve histories of all seven algorithms, both policies, binary and "
            "multifurcating inputs, arbitrary costs; structural validity predicates of the "
            "reference model on every returned object"),
    "C05": ("ALL is the optimal set, ANY one member",
            "several ALL and ANY solves of one input object under different simulator-chosen "
            "iteration orders, compared with the brute-force optimal set and with each other"),
    "C08": ("Polytomy resolution",
            "lazy binarize() producers stepped in drawn interleavings with cancellation faults, "
            "and extended solvers on multifurcating inputs against the optimum over an "
            "independent refinement generator"),
    "C09": ("Presentation independence, determinism, cost monotonicity",
            "metamorphic and repeated solves inside one history under different simulator-chosen "
            "iteration orders; fresh-process sweep of the uninstrumented package under real hash "
            "seeds"),
    "C10": ("Cross-algorithm agreement",
            "all seven algorithms executed in a drawn order on one shared input object; relations "
            "between independently recounted optima"),
}
_E1_BUDGET = {  # (batches, examples per batch) for quick / thorough
    "C01": ((64, 520), (640, 800)),
    "C02": ((64, 480), (640, 700)),
    "C03": ((64, 350), (640, 500)),
    "C04": ((64, 400), (640, 600)),
    "C05": ((64, 450), (640, 700)),
    "C08": ((64, 100), (640, 200)),
    "C09": ((64, 190), (640, 360)),
    "C10": ((64, 400), (640, 600)),
}
for _pid, (_title, _tech) in _E1.items():
    PROPS[_pid] = {
        "id": _pid,
        "engine": e1_solver,
        "quick": _budget(*_E1_BUDGET[_pid][0], 75),
        "thorough": _budget(*_E1_BUDGET[_pid][1], 1500),
        "technique": "deterministic simulation: " + _tech,
        "level_text": _title + ": seeded search over inputs, operation histories, set iteration "
                      "orders, generator interleavings and cancellation faults; each operation is "
                      "compared with an executable reference model and with the rest of the "
                      "history. Exploration (sampling with shrinking replay files) is the honest "
                      "level for a for-all over inputs and schedules.",
        "design_ref": f"DESIGN.md section 6 ({_pid}), section 5 (E1/E2)",
        "level_note": _LEVEL_NOTE,
    }

_E5 = {
    "C13": ("The diagram shows the events the cost model counts",
            "layout/render histories on one reconciliation object with the TeX engine simulated "
            "as a peer process (drawn sizes, chatter, engine choice, failures, dropped or "
            "duplicated measurement lines); event / loss / transfer census per species against an "
            "independent recount, at layout and at TikZ level"),
    "C14": ("Geometric coherence and orientation symmetry",
            "compute V / compute H (peer answering transposed sizes) / repeated computes on the "
            "same mutated object or a fresh parse, in drawn order; geometric predicates, mirror "
            "and twice-equal comparisons"),
    "C15": ("Well-formed TikZ, colour scoping, faithful labels",
            "render histories with hostile names, nested colours and label widths through the "
            "simulated peer; TikZ tokenizer, reference colour scoping (also on the second compute "
            "after the first wrote colour features), forward label matcher"),
}
for _pid, (_title, _tech) in _E5.items():
    PROPS[_pid] = {
        "id": _pid,
        "engine": e5_render,
        "quick": _budget(64, 650, 75),
        "thorough": _budget(960, 1500, 1500),
        "technique": "deterministic simulation: " + _tech,
        "level_text": _title + ": the only way to run layout and rendering here is against a "
                      "simulated TeX peer; the simulator owns its answers and faults, and the "
                      "history of calls on the shared reconciliation object. Seeded exploration "
                      "with shrinking replay files.",
        "design_ref": f"DESIGN.md section 6 ({_pid}), section 5 (E5), section 3.2 (S4)",
        "level_note": _LEVEL_NOTE,
    }

PROPS["C12"] = {
    "id": "C12",
    "engine": e4_cli,
    "quick": _budget(64, 250, 75),
    "thorough": _budget(960, 600, 1500),
    "technique": "deterministic simulation: the CLI run in-process as a pipeline of simulated "
                 "processes over a simulated file system, stdio and TeX peer, with short raw "
                 "reads/writes, errno faults, process kills with lost buffers, clock jumps, "
                 "locale / warning-filter environments and per-process set-iteration seeds; "
                 "names, printed cost, ALL/ANY containment, draw acceptance and the error path "
                 "checked on what the processes wrote; a sample is re-run as real child "
                 "processes to validate the simulated process boundary",
    "level_text": "The command-line contract is about files, streams, exit status and the "
                  "hand-off between separate processes (reconcile all / any / draw) that a real "
                  "run would execute under different hash seeds; the simulator owns all of those. "
                  "Seeded exploration with shrinking replay files.",
    "design_ref": "DESIGN.md section 6 (C12), section 5 (E4), section 3.2 (S3, S4)",
    "level_note": _LEVEL_NOTE,
}

NOT_APPLICABLE = {
    "C06": "pure function of a frozen value (node_event/_cost_rec/labeling cost): no schedule, order, "
           "stream, clock or history can affect it, so deterministic simulation has nothing to "
           "decide; its CLI sentence ('Minimum cost:' equals the recount) is decided inside C12 "
           "and every solver check compares cost() with the independent recount",
    "C07": "reconcile_lca is a pure post-order fold over immutable inputs: no interleaving, order, "
           "fault or history dimension exists in its anchored code; it runs inside C10/C12 "
           "histories only as a participant",
    "C11": "to_dict/from_dict round trip is a pure in-memory function; the only place serialised "
           "results cross a simulator-owned boundary is the CLI file hand-off, decided inside C12",
    "C17": "LCA / range-minimum queries read an immutable precomputed table: no container order, "
           "history, stream or clock is involved; bounded-exhaustive testing is the right family",
    "C18": "four pure functions on integers and sequences: nothing to schedule or fault",
}

# properties the design claims but whose engine is not built yet (kept honest in MANIFEST)
PENDING = {
    pid: "claimed in DESIGN.md; check under construction in this round (engine not registered yet)"
    for pid in ("C01", "C02", "C03", "C04", "C05", "C08", "C09", "C10", "C12", "C13", "C14",
                "C15", "C19", "C20")
    if pid not in PROPS
}

ENGINES = [
    {"name": "E4-cli-pipeline", "path": "sim/e4_cli.py", "serves_properties": ["C12"],
     "kind_free_text": "CLI processes in-process over SimFS / stdio / TeX peer with I/O faults"},
    {"name": "E5-render", "path": "sim/e5_render.py", "serves_properties": ["C13", "C14", "C15"],
     "kind_free_text": "layout/render histories against a simulated TeX engine peer (sim/peer.py)"},
    {"name": "E1-solver-history", "path": "sim/e1_solver.py",
     "serves_properties": ["C01", "C02", "C03", "C04", "C05", "C08", "C09", "C10"],
     "kind_free_text": "operation histories on shared solver inputs incl. lazy producers (E2), "
                       "brute-force reference models in sim/ref.py"},
    {"name": "E3-dp-entry", "path": "sim/e3_entry.py", "serves_properties": ["C16"],
     "kind_free_text": "history machine over Entry/Table cells with list-of-offers oracle"},
    {"name": "E6-order-util", "path": "sim/e6_order.py", "serves_properties": ["C19", "C20"],
     "kind_free_text": "toposort / DisjointSet / triples / supertrees under simulator-owned set orders"},
]
