"""Registry: property id -> engine, budgets."""
from . import e3_entry


def _budget(batches, examples, wall_s):
    return {"batches": batches, "examples": examples, "wall_s": wall_s}


PROPS = {
    "C16": {
        "id": "C16",
        "engine": e3_entry,
        "quick": _budget(32, 150, 60),
        "thorough": _budget(160, 400, 600),
    },
}
