"""Engine E7: run the *uninstrumented* package in fresh interpreters under real hash seeds
(and, with `setarch -R`, reproducible addresses plus a drawn heap padding) and compare the
canonical observations with the instrumented in-process run.  Cross-check for seam S1 and the
literal 'fresh-process repetition' of C09.  Usable as `python -m`-free script:

    python sim/e7_fresh.py < cases.json > observations.json      (plain import, no SimSet)
"""
import json
import os
import subprocess
import sys

VERIF = os.path.dirname(os.path.dirname(os.path.abspath(__file__)))


def worker_main():
    """Runs inside the fresh interpreter: plain superrec2 from the working tree."""
    src = os.environ.get("VERIF_REPO_SRC", "/repo/src")
    sys.path.insert(0, src)
    sys.path.insert(0, VERIF)
    sys.dont_write_bytecode = True
    padding = int(os.environ.get("VERIF_E7_PADDING", "0"))
    ballast = [bytearray(64) for _ in range(padding)]  # shifts the addresses of later objects
    import tqdm

    tqdm.tqdm.monitor_interval = 0
    from sim import e1_solver

    e1_solver.prepare()
    import superrec2

    assert os.path.realpath(superrec2.__file__).startswith(os.path.realpath(src)), superrec2.__file__
    cases = json.load(sys.stdin)
    out = [e1_solver.observe(case) for case in cases]
    del ballast
    json.dump(out, sys.stdout)


def setarch_prefix():
    try:
        arch = os.uname().machine
        probe = subprocess.run(["setarch", arch, "-R", "true"], capture_output=True, timeout=20)
        if probe.returncode == 0:
            return ["setarch", arch, "-R"]
    except (OSError, subprocess.SubprocessError):
        pass
    return []


def sweep(cases, hashseeds, paddings, timeout=600):
    """-> list (per configuration) of (label, observations per case)."""
    prefix = setarch_prefix()
    procs = []
    for hs, pad in zip(hashseeds, paddings):
        env = dict(os.environ, PYTHONHASHSEED=str(hs), VERIF_E7_PADDING=str(pad))
        env.pop("UDEM_LBIT_SUPERREC2_VERIF", None)
        p = subprocess.Popen(prefix + [sys.executable, os.path.abspath(__file__)],
                             stdin=subprocess.PIPE, stdout=subprocess.PIPE,
                             stderr=subprocess.PIPE, env=env, text=True)
        procs.append((f"fresh process PYTHONHASHSEED={hs} padding={pad}", p))
    results = []
    payload = json.dumps(cases)
    import threading

    outs = {}

    def feed(label, p):
        outs[label] = p.communicate(payload, timeout=timeout)

    threads = [threading.Thread(target=feed, args=lp) for lp in procs]
    for t in threads:
        t.start()
    for t in threads:
        t.join()
    for label, p in procs:
        so, se = outs[label]
        if p.returncode != 0:
            raise RuntimeError(f"E7 worker failed ({label}): {se[-2000:]}")
        results.append((label, json.loads(so)))
    return results, bool(prefix)


if __name__ == "__main__":
    worker_main()
